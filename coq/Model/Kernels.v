(* Model of src/octets.rs: BinaryOctetVec, the x86 (AVX-512 / AVX2 / SSSE3) and portable kernels of
   add_assign, mulassign_scalar, fused_addassign_mul_scalar, fused_addassign_mul_scalar_binary and
   their three (+1) run-time dispatchers.  NEON is not compiled on the x86_64 host and not modelled.

   Byte buffers are `list N` (every element < 256), offsets and lengths are `nat`.
   Part 1 is the TRUSTED table of intrinsic semantics (Intel Intrinsics Guide), on byte lists of
   length 16 (xmm) / 32 (ymm) / 64 (zmm), byte 0 = least significant byte of the register.
   Part 2 transcribes the kernels: same loops, same index expressions, same order of operations.
   Every raw-pointer / get_unchecked access goes through loadu / storeu / get_unchecked /
   set_unchecked below, which return `Panic PIndex` when the access would leave the buffer (in Rust
   that is undefined behaviour, so a theorem `kernel .. = Ok ..` also says that no such access
   happened).  Part 3 lists, per kernel, the accesses (buffer, byte offset, width) it performs.
   DEFINITIONS ONLY. *)
From Coq Require Import NArith List Bool Arith.
From RQ Require Import Base.Outcome Base.Ints Base.ListX Base.Vec Spec.Bits Model.Octet.
Import ListNotations.
Open Scope N_scope.
Open Scope outcome_scope.

(* ====================================================================================== *)
(* Part 1a: memory                                                                          *)
(* ====================================================================================== *)

(* _mm*_loadu_si*, read_unaligned: w bytes at byte offset o of buf *)
Definition loadu (w : nat) (buf : list N) (o : nat) : outcome (list N) :=
  if (o + w <=? length buf)%nat then Ok (firstn w (skipn o buf)) else Panic PIndex.

(* _mm*_storeu_si*, write_unaligned: overwrite |v| bytes at byte offset o of buf *)
Definition storeu (buf : list N) (o : nat) (v : list N) : outcome (list N) :=
  if (o + length v <=? length buf)%nat
  then Ok (firstn o buf ++ v ++ skipn (o + length v) buf) else Panic PIndex.

(* slice.get_unchecked(i) / *ptr.add(i) on bytes (or on u64 words for `*other_u64.add(k)`) *)
Definition get_unchecked (buf : list N) (i : nat) : outcome N := nth_ok buf i.

(* *slice.get_unchecked_mut(i) = v / *ptr.add(i) = v *)
Definition set_unchecked (buf : list N) (i : nat) (v : N) : outcome (list N) :=
  if (i <? length buf)%nat then Ok (firstn i buf ++ v :: skipn (S i) buf) else Panic PIndex.

(* ====================================================================================== *)
(* Part 1b: intrinsics (trusted; `nb` = register width in bytes, `lanes` = nb / 16)         *)
(* ====================================================================================== *)

(* _mm_and_si128 / _mm256_and_si256 / _mm512_and_si512, ..xor.. *)
Definition v_and (a b : list N) : list N := map2 N.land a b.
Definition v_xor (a b : list N) : list N := map2 N.lxor a b.
(* _mm256_andnot_si256 a b = (NOT a) AND b *)
Definition v_andnot (a b : list N) : list N := map2 (fun x y => N.land (255 - x) y) a b.
(* _mm256_cmpeq_epi8: 0xFF where equal, 0x00 elsewhere *)
Definition v_cmpeq_epi8 (a b : list N) : list N := map2 (fun x y => if x =? y then 255 else 0) a b.
(* _mm256_setzero_si256 *)
Definition v_setzero (nb : nat) : list N := repeat 0 nb.
(* _mm*_set1_epi8 *)
Definition v_set1_epi8 (nb : nat) (c : N) : list N := repeat c nb.
(* _mm256_set1_epi32 / _mm256_set1_epi64x: the little-endian bytes of the element, repeated *)
Definition v_set1_epi32 (nb : nat) (w : N) : list N := concat (repeat (le_bytes 4 w) (nb / 4)).
Definition v_set1_epi64x (nb : nat) (q : N) : list N := concat (repeat (le_bytes 8 q) (nb / 8)).
(* _mm256_set_epi64x e3 e2 e1 e0: e0 is the lowest 64-bit element *)
Definition v_set_epi64x (e3 e2 e1 e0 : N) : list N :=
  le_bytes 8 e0 ++ le_bytes 8 e1 ++ le_bytes 8 e2 ++ le_bytes 8 e3.
(* _mm512_broadcast_i32x4 (and _mm256_broadcastsi128_si256): repeat the 128-bit value *)
Definition v_broadcast128 (nb : nat) (t : list N) : list N := concat (repeat t (nb / 16)).

(* pshufb on one 128-bit lane: out[j] = if x[j] bit 7 set then 0 else t[x[j] mod 16] *)
Definition pshufb128 (t x : list N) : list N :=
  map (fun xj => if 128 <=? xj then 0 else nth (N.to_nat (xj mod 16)) t 0) x.
(* _mm_shuffle_epi8 (lanes = 1), _mm256_shuffle_epi8 (2), _mm512_shuffle_epi8 (4):
   every 128-bit lane of x indexes the SAME lane of t *)
Fixpoint v_shuffle_epi8 (lanes : nat) (t x : list N) : list N :=
  match lanes with
  | O => []
  | S k => pshufb128 (firstn 16 t) (firstn 16 x) ++ v_shuffle_epi8 k (skipn 16 t) (skipn 16 x)
  end.

(* _mm*_srli_epi64 v s: every 64-bit little-endian element shifted right by s, zero filled *)
Fixpoint v_srli_epi64 (qwords : nat) (s : N) (v : list N) : list N :=
  match qwords with
  | O => []
  | S k => le_bytes 8 (N.shiftr (le_val (firstn 8 v)) s) ++ v_srli_epi64 k s (skipn 8 v)
  end.

(* _mm512_maskz_mov_epi8 k v: out[j] = if bit j of k then v[j] else 0 *)
Definition v_maskz_mov_epi8 (k : N) (v : list N) : list N :=
  map (fun jv => if N.testbit k (N.of_nat (fst jv)) then snd jv else 0) (combine (seq 0 (length v)) v).

(* _bextr2_u32 a control: start = control[7:0], len = control[15:8] *)
Definition bextr2_u32 (a ctl : N) : N :=
  let start := ctl mod 256 in
  let len := (ctl / 256) mod 256 in
  (N.shiftr a start) mod 2 ^ len.

(* ====================================================================================== *)
(* Part 2a: BinaryOctetVec = (elements : list of u64 words, length)                         *)
(* ====================================================================================== *)

Definition WORD_WIDTH : N := 64.

(* (WORD_WIDTH - length % WORD_WIDTH) % WORD_WIDTH   (no overflow: length % 64 < 64) *)
Definition padding_bits (bv : bvec) : N :=
  (WORD_WIDTH - (snd bv) mod WORD_WIDTH) mod WORD_WIDTH.

(* 1u64 << bit: a shift amount >= 64 is an overflow (never happens: every caller has bit < 64) *)
Definition select_mask (bit : N) : outcome N :=
  if bit <? 64 then Ok (N.shiftl 1 bit) else Panic POverflow.

(* the closure of to_octet_vec run `n` more times from state (word, bit) *)
Fixpoint to_octet_vec_loop (elements : list N) (n : nat) (word bit : N)
  : outcome (list N * N * N) :=
  match n with
  | O => Ok ([], word, bit)
  | S k =>
      e <- nth_ok elements (N.to_nat word) ;;                (* self.elements[word], checked *)
      m <- select_mask bit ;;
      let value := if negb (N.land e m =? 0) then 1 else 0 in
      let bit1 := bit + 1 in
      let wb := if bit1 =? 64 then (word + 1, 0) else (word, bit1) in
      r <- to_octet_vec_loop elements k (fst wb) (snd wb) ;;
      Ok (value :: fst (fst r), snd (fst r), snd r)
  end.

Definition to_octet_vec (bv : bvec) : outcome (list N) :=
  r <- to_octet_vec_loop (fst bv) (N.to_nat (snd bv)) 0 (padding_bits bv) ;;
  assert_ok (snd (fst r) =? N.of_nat (length (fst bv))) ;;;       (* assert_eq!(word, elements.len()) *)
  assert_ok (snd r =? 0) ;;;                                      (* assert_eq!(bit, 0) *)
  Ok (fst (fst r)).

(* from_raw_parts(elements.as_ptr() as *const u32, elements.len() * 2) on a little-endian host *)
Definition u32_view (elements : list N) : list N :=
  flat_map (fun e => [e mod 2 ^ 32; (e / 2 ^ 32) mod 2 ^ 32]) elements.

(* ====================================================================================== *)
(* Part 2b: add_assign                                                                      *)
(* ====================================================================================== *)

(* the unaligned-u64 loop  for i in a..b { *(p as *mut u64).add(i) ^= *(q as *const u64).add(i) } *)
Definition xor_u64_loop (a b : nat) (other octets : list N) : outcome (list N) :=
  ofold (fun o i =>
           self_value <- loadu 8 o (i * 8) ;;
           other_value <- loadu 8 other (i * 8) ;;
           let result := N.lxor (le_val self_value) (le_val other_value) in
           storeu o (i * 8) (le_bytes 8 result))
        (range a b) octets.

(* for i in a..b { *octets.get_unchecked_mut(i) ^= other.get_unchecked(i) } *)
Definition xor_byte_loop (a b : nat) (other octets : list N) : outcome (list N) :=
  ofold (fun o i =>
           x <- get_unchecked o i ;;
           y <- get_unchecked other i ;;
           set_unchecked o i (N.lxor x y))
        (range a b) octets.

Definition add_assign_fallback (octets other : list N) : outcome (list N) :=
  assert_ok (length octets =? length other)%nat ;;;
  let len := length octets in
  o1 <- xor_u64_loop 0 (len / 8) other octets ;;
  let remainder := (len mod 8)%nat in
  xor_byte_loop (len - remainder) len other o1.

(* add_assign_avx512 / _avx2 / _ssse3 are the same text up to the register width w = 64 / 32 / 16 *)
Definition add_assign_simd (w : nat) (octets other : list N) : outcome (list N) :=
  assert_ok (length octets =? length other)%nat ;;;
  let len := length octets in
  o1 <- ofold (fun o i =>
                 self_vec <- loadu w o (i * w) ;;
                 other_vec <- loadu w other (i * w) ;;
                 let result := v_xor self_vec other_vec in
                 storeu o (i * w) result)
              (range 0 (len / w)) octets ;;
  let remainder := (len mod w)%nat in
  o2 <- xor_u64_loop ((len - remainder) / 8) (len / 8) other o1 ;;
  let remainder := (len mod 8)%nat in
  xor_byte_loop (len - remainder) len other o2.

Definition add_assign_avx512 := add_assign_simd 64.
Definition add_assign_avx2 := add_assign_simd 32.
Definition add_assign_ssse3 := add_assign_simd 16.

(* ====================================================================================== *)
(* Part 2c: mulassign_scalar                                                                *)
(* ====================================================================================== *)

(* *OCTET_MUL.get_unchecked(scalar_index).get_unchecked(x) *)
Definition octet_mul_unchecked (scalar x : N) : outcome N := tbl2 octet_mul_table scalar x.

(* for i in a..b { octets[i] = OCTET_MUL[scalar][octets[i]] }   (all unchecked) *)
Definition mul_byte_loop (a b : nat) (scalar : N) (octets : list N) : outcome (list N) :=
  ofold (fun o i =>
           x <- get_unchecked o i ;;
           y <- octet_mul_unchecked scalar x ;;
           set_unchecked o i y)
        (range a b) octets.

(* for item in octets { *item = OCTET_MUL[scalar][*item] } *)
Definition mulassign_scalar_fallback (octets : list N) (scalar : N) : outcome (list N) :=
  omapM (fun item => octet_mul_unchecked scalar item) octets.

(* the nibble-split product of one register, AVX-512 order: shift, then mask *)
Definition mulvec_avx512 (low_table hi_table v : list N) : list N :=
  let low_mask := v_set1_epi8 64 15 in
  let low := v_and v low_mask in
  let low_result := v_shuffle_epi8 4 low_table low in
  let hi := v_srli_epi64 8 4 v in
  let hi := v_and hi low_mask in
  let hi_result := v_shuffle_epi8 4 hi_table hi in
  v_xor hi_result low_result.

(* AVX2 / SSSE3 order: mask with 0xF0, then shift *)
Definition mulvec_avx2 (low_table hi_table v : list N) : list N :=
  let low_mask := v_set1_epi8 32 15 in
  let hi_mask := v_set1_epi8 32 240 in
  let low := v_and v low_mask in
  let low_result := v_shuffle_epi8 2 low_table low in
  let hi := v_and v hi_mask in
  let hi := v_srli_epi64 4 4 hi in
  let hi_result := v_shuffle_epi8 2 hi_table hi in
  v_xor hi_result low_result.

Definition mulvec_ssse3 (low_table hi_table v : list N) : list N :=
  let low_mask := v_set1_epi8 16 15 in
  let hi_mask := v_set1_epi8 16 240 in
  let low := v_and v low_mask in
  let low_result := v_shuffle_epi8 1 low_table low in
  let hi := v_and v hi_mask in
  let hi := v_srli_epi64 2 4 hi in
  let hi_result := v_shuffle_epi8 1 hi_table hi in
  v_xor hi_result low_result.

(* OCTET_MUL_LOW_BITS[scalar] (checked index), then an unaligned load of nb bytes of that row *)
Definition load_low_table (nb : nat) (scalar : N) : outcome (list N) :=
  row <- nth_ok octet_mul_low_table (N.to_nat scalar) ;; loadu nb row 0.
Definition load_hi_table (nb : nat) (scalar : N) : outcome (list N) :=
  row <- nth_ok octet_mul_hi_table (N.to_nat scalar) ;; loadu nb row 0.

Definition mulassign_scalar_avx512 (octets : list N) (scalar : N) : outcome (list N) :=
  low_table128 <- load_low_table 16 scalar ;;
  hi_table128 <- load_hi_table 16 scalar ;;
  let low_table := v_broadcast128 64 low_table128 in
  let hi_table := v_broadcast128 64 hi_table128 in
  let len := length octets in
  o1 <- ofold (fun o i =>
                 self_vec <- loadu 64 o (i * 64) ;;
                 let result := mulvec_avx512 low_table hi_table self_vec in
                 storeu o (i * 64) result)
              (range 0 (len / 64)) octets ;;
  let remainder := (len mod 64)%nat in
  mul_byte_loop (len - remainder) len scalar o1.

Definition mulassign_scalar_avx2 (octets : list N) (scalar : N) : outcome (list N) :=
  low_table <- load_low_table 32 scalar ;;
  hi_table <- load_hi_table 32 scalar ;;
  let len := length octets in
  o1 <- ofold (fun o i =>
                 self_vec <- loadu 32 o (i * 32) ;;
                 let result := mulvec_avx2 low_table hi_table self_vec in
                 storeu o (i * 32) result)
              (range 0 (len / 32)) octets ;;
  let remainder := (len mod 32)%nat in
  mul_byte_loop (len - remainder) len scalar o1.

Definition mulassign_scalar_ssse3 (octets : list N) (scalar : N) : outcome (list N) :=
  low_table <- load_low_table 16 scalar ;;
  hi_table <- load_hi_table 16 scalar ;;
  let len := length octets in
  o1 <- ofold (fun o i =>
                 self_vec <- loadu 16 o (i * 16) ;;
                 let result := mulvec_ssse3 low_table hi_table self_vec in
                 storeu o (i * 16) result)
              (range 0 (len / 16)) octets ;;
  let remainder := (len mod 16)%nat in
  mul_byte_loop (len - remainder) len scalar o1.

(* ====================================================================================== *)
(* Part 2d: fused_addassign_mul_scalar                                                      *)
(* ====================================================================================== *)

(* for i in a..b { octets[i] ^= OCTET_MUL[scalar][other[i]] }   (all unchecked) *)
Definition fma_byte_loop (a b : nat) (scalar : N) (other octets : list N) : outcome (list N) :=
  ofold (fun o i =>
           d <- get_unchecked o i ;;
           s <- get_unchecked other i ;;
           y <- octet_mul_unchecked scalar s ;;
           set_unchecked o i (N.lxor d y))
        (range a b) octets.

(* for (i, octet) in octets.iter_mut().enumerate() { *octet ^= OCTET_MUL[scalar][other[i]] } *)
Definition fused_addassign_mul_scalar_fallback (octets other : list N) (scalar : N)
  : outcome (list N) :=
  fma_byte_loop 0 (length octets) scalar other octets.

Definition fused_addassign_mul_scalar_avx512 (octets other : list N) (scalar : N)
  : outcome (list N) :=
  low_table128 <- load_low_table 16 scalar ;;
  hi_table128 <- load_hi_table 16 scalar ;;
  let low_table := v_broadcast128 64 low_table128 in
  let hi_table := v_broadcast128 64 hi_table128 in
  let len := length octets in
  o1 <- ofold (fun o i =>
                 other_vec <- loadu 64 other (i * 64) ;;
                 let other_vec := mulvec_avx512 low_table hi_table other_vec in
                 self_vec <- loadu 64 o (i * 64) ;;
                 let result := v_xor self_vec other_vec in
                 storeu o (i * 64) result)
              (range 0 (len / 64)) octets ;;
  let remainder := (len mod 64)%nat in
  fma_byte_loop (len - remainder) len scalar other o1.

Definition fused_addassign_mul_scalar_avx2 (octets other : list N) (scalar : N)
  : outcome (list N) :=
  low_table <- load_low_table 32 scalar ;;
  hi_table <- load_hi_table 32 scalar ;;
  let len := length octets in
  o1 <- ofold (fun o i =>
                 other_vec <- loadu 32 other (i * 32) ;;
                 let other_vec := mulvec_avx2 low_table hi_table other_vec in
                 self_vec <- loadu 32 o (i * 32) ;;
                 let result := v_xor self_vec other_vec in
                 storeu o (i * 32) result)
              (range 0 (len / 32)) octets ;;
  let remainder := (len mod 32)%nat in
  fma_byte_loop (len - remainder) len scalar other o1.

Definition fused_addassign_mul_scalar_ssse3 (octets other : list N) (scalar : N)
  : outcome (list N) :=
  low_table <- load_low_table 16 scalar ;;
  hi_table <- load_hi_table 16 scalar ;;
  let len := length octets in
  o1 <- ofold (fun o i =>
                 other_vec <- loadu 16 other (i * 16) ;;
                 let other_vec := mulvec_ssse3 low_table hi_table other_vec in
                 self_vec <- loadu 16 o (i * 16) ;;
                 let result := v_xor self_vec other_vec in
                 storeu o (i * 16) result)
              (range 0 (len / 16)) octets ;;
  let remainder := (len mod 16)%nat in
  fma_byte_loop (len - remainder) len scalar other o1.

(* ====================================================================================== *)
(* Part 2e: fused_addassign_mul_scalar_binary                                               *)
(* ====================================================================================== *)

(* remaining -= head  (usize subtraction; never underflows when octets.len() == other.len()) *)
Definition sub_usize (a b : nat) : outcome nat :=
  if (b <=? a)%nat then Ok (a - b)%nat else Panic POverflow.

Definition fused_addassign_mul_scalar_binary_avx2 (octets : list N) (other : bvec) (scalar : N)
  : outcome (list N) :=
  let first_bit := N.to_nat (padding_bits other) in
  let other_u32 := u32_view (fst other) in
  let start0 := (first_bit / 32)%nat in
  first_bits <- nth_ok other_u32 start0 ;;                          (* other_u32[..], checked *)
  let bit_in_first_bits := (first_bit mod 32)%nat in
  let remaining0 := length octets in
  (* Handle first bits to make remainder 32bit aligned; st = (octets, remaining, start, self offset) *)
  st <- (if (0 <? bit_in_first_bits)%nat then
           let control := N.lor (N.of_nat bit_in_first_bits) 256 in
           let head := (32 - bit_in_first_bits)%nat in
           (* octets.iter_mut().enumerate().take(head): safe iteration, stops at the slice end *)
           o1 <- ofold (fun o i =>
                          val <- nth_ok o i ;;
                          let other_byte := u8 (bextr2_u32 first_bits (u32 (control + N.of_nat i))) in
                          (* other_byte is 0 or 1: the u8 product cannot overflow *)
                          set_unchecked o i (N.lxor val (scalar * other_byte)))
                       (range 0 (Nat.min (length octets) head)) octets ;;
           remaining <- sub_usize remaining0 head ;;
           Ok (o1, remaining, (start0 + 1)%nat, head)
         else Ok (octets, remaining0, start0, O)) ;;
  let o1 := fst (fst (fst st)) in
  let remaining := snd (fst (fst st)) in
  let start := snd (fst st) in
  let self_off := snd st in
  assert_ok (remaining mod 32 =? 0)%nat ;;;
  let shuffle_mask :=
    v_set_epi64x 0x0303030303030303 0x0202020202020202 0x0101010101010101 0 in
  let bit_select_mask := v_set1_epi64x 32 0x8040201008040201 in
  let scalar_avx := v_set1_epi8 32 scalar in
  ofold (fun o i =>
           w <- nth_ok other_u32 (start + i) ;;                     (* other_u32[..], checked *)
           let other_vec := v_set1_epi32 32 w in
           let other_vec := v_shuffle_epi8 2 other_vec shuffle_mask in
           let other_vec := v_andnot other_vec bit_select_mask in
           let other_vec := v_cmpeq_epi8 other_vec (v_setzero 32) in
           let product := v_and other_vec scalar_avx in
           self_vec <- loadu 32 o (self_off + i * 32) ;;
           let result := v_xor self_vec product in
           storeu o (self_off + i * 32) result)
        (range 0 (remaining / 32)) o1.

Definition fused_addassign_mul_scalar_binary_avx512 (octets : list N) (other : bvec) (scalar : N)
  : outcome (list N) :=
  if (length octets =? 0)%nat then Ok octets else
  let first_bit := N.to_nat (padding_bits other) in
  let other_u64 := fst other in
  let start0 := (first_bit / 64)%nat in
  first_bits <- get_unchecked other_u64 start0 ;;                   (* *other_u64.add(..) *)
  let bit_in_first_bits := (first_bit mod 64)%nat in
  let remaining0 := length octets in
  st <- (if (0 <? bit_in_first_bits)%nat then
           let head := (64 - bit_in_first_bits)%nat in
           o1 <- ofold (fun o i =>
                          let other_byte :=
                            u8 (N.land (N.shiftr first_bits (N.of_nat (bit_in_first_bits + i))) 1) in
                          val <- get_unchecked o i ;;               (* *self_ptr.add(i) *)
                          set_unchecked o i (N.lxor val (scalar * other_byte)))
                       (range 0 head) octets ;;
           remaining <- sub_usize remaining0 head ;;
           Ok (o1, remaining, (start0 + 1)%nat, head)
         else Ok (octets, remaining0, start0, O)) ;;
  let o1 := fst (fst (fst st)) in
  let remaining := snd (fst (fst st)) in
  let start := snd (fst st) in
  let self_off := snd st in
  assert_ok (remaining mod 64 =? 0)%nat ;;;
  let scalar_avx := v_set1_epi8 64 scalar in
  ofold (fun o i =>
           bits <- get_unchecked other_u64 (start + i) ;;           (* *other_u64.add(..) *)
           if bits =? 0 then Ok o                                   (* continue *)
           else
             let product := v_maskz_mov_epi8 bits scalar_avx in
             self_vec <- loadu 64 o (self_off + i * 64) ;;
             let result := v_xor self_vec product in
             storeu o (self_off + i * 64) result)
        (range 0 (remaining / 64)) o1.

(* ====================================================================================== *)
(* Part 2f: run-time dispatch.  `cpu` lists the features is_x86_feature_detected! reports.    *)
(* debug_assert! fires only in mode Checked (debug-assertions on).                          *)
(* ====================================================================================== *)

Inductive feature := AVX512F | AVX512BW | AVX2 | BMI1 | SSSE3.
Definition feature_eqb (a b : feature) : bool :=
  match a, b with
  | AVX512F, AVX512F | AVX512BW, AVX512BW | AVX2, AVX2 | BMI1, BMI1 | SSSE3, SSSE3 => true
  | _, _ => false
  end.
Definition cpu := list feature.
Definition has (c : cpu) (f : feature) : bool := existsb (feature_eqb f) c.

Definition debug_assert (m : mode) (b : bool) : outcome unit :=
  match m with Checked => assert_ok b | Release => Ok tt end.

Definition add_assign (c : cpu) (octets other : list N) : outcome (list N) :=
  if has c AVX512F then add_assign_avx512 octets other
  else if has c AVX2 then add_assign_avx2 octets other
  else if has c SSSE3 then add_assign_ssse3 octets other
  else add_assign_fallback octets other.

Definition mulassign_scalar (c : cpu) (octets : list N) (scalar : N) : outcome (list N) :=
  if has c AVX512F && has c AVX512BW then mulassign_scalar_avx512 octets scalar
  else if has c AVX2 then mulassign_scalar_avx2 octets scalar
  else if has c SSSE3 then mulassign_scalar_ssse3 octets scalar
  else mulassign_scalar_fallback octets scalar.

Definition fused_addassign_mul_scalar (m : mode) (c : cpu) (octets other : list N) (scalar : N)
  : outcome (list N) :=
  debug_assert m (negb (scalar =? 1)) ;;;
  debug_assert m (negb (scalar =? 0)) ;;;
  assert_ok (length octets =? length other)%nat ;;;
  if has c AVX512F && has c AVX512BW then fused_addassign_mul_scalar_avx512 octets other scalar
  else if has c AVX2 then fused_addassign_mul_scalar_avx2 octets other scalar
  else if has c SSSE3 then fused_addassign_mul_scalar_ssse3 octets other scalar
  else fused_addassign_mul_scalar_fallback octets other scalar.

(* the tail of fused_addassign_mul_scalar_binary: unpack, then the byte-wise dispatchers *)
Definition fused_addassign_mul_scalar_binary_generic (m : mode) (c : cpu)
           (octets : list N) (other : bvec) (scalar : N) : outcome (list N) :=
  if scalar =? 1 then
    v <- to_octet_vec other ;; add_assign c octets v
  else
    v <- to_octet_vec other ;; fused_addassign_mul_scalar m c octets v scalar.

Definition fused_addassign_mul_scalar_binary (m : mode) (c : cpu)
           (octets : list N) (other : bvec) (scalar : N) : outcome (list N) :=
  debug_assert m (negb (scalar =? 0)) ;;;
  assert_ok (N.of_nat (length octets) =? snd other) ;;;
  if (length octets =? 0)%nat then Ok octets
  else if has c AVX512F && has c AVX512BW then
    fused_addassign_mul_scalar_binary_avx512 octets other scalar
  else if has c AVX2 && has c BMI1 then
    fused_addassign_mul_scalar_binary_avx2 octets other scalar
  else fused_addassign_mul_scalar_binary_generic m c octets other scalar.

(* ====================================================================================== *)
(* Part 3: access lists (C12).  One entry (buffer, byte offset, width) per load / store /    *)
(* unchecked index, in program order, with the index expressions of the source.             *)
(* ====================================================================================== *)

Local Open Scope nat_scope.

Inductive buf_id :=
| BOctets            (* the destination slice `octets` *)
| BOther             (* the source slice `other` *)
| BWords             (* other.elements viewed as bytes: 8 * elements.len() *)
| BMulOuter          (* OCTET_MUL: 256 rows; the unit is one row *)
| BMulRow            (* one row of OCTET_MUL: 256 bytes *)
| BLowRow            (* one row of OCTET_MUL_LOW_BITS: 32 bytes *)
| BHiRow.            (* one row of OCTET_MUL_HI_BITS: 32 bytes *)

Definition access : Type := (buf_id * nat * nat)%type.

Definition buf_len (octets_len other_len words : nat) (b : buf_id) : nat :=
  match b with
  | BOctets => octets_len
  | BOther => other_len
  | BWords => 8 * words
  | BMulOuter => 256
  | BMulRow => 256
  | BLowRow => 32
  | BHiRow => 32
  end.

Definition in_bounds (octets_len other_len words : nat) (a : access) : Prop :=
  (snd (fst a) + snd a <= buf_len octets_len other_len words (fst (fst a))).
Definition in_boundsb (octets_len other_len words : nat) (a : access) : bool :=
  (snd (fst a) + snd a <=? buf_len octets_len other_len words (fst (fst a))).

Definition acc_rw (w : nat) (o : nat) : list access :=
  [(BOctets, o, w); (BOther, o, w); (BOctets, o, w)].     (* load self, load other, store self *)

Definition xor_u64_loop_accesses (a b : nat) : list access :=
  flat_map (fun i => acc_rw 8 (i * 8)) (range a b).
Definition xor_byte_loop_accesses (a b : nat) : list access :=
  flat_map (fun i => acc_rw 1 i) (range a b).

Definition add_assign_fallback_accesses (octets other : list N) : list access :=
  let len := length octets in
  xor_u64_loop_accesses 0 (len / 8) ++ xor_byte_loop_accesses (len - len mod 8) len.

Definition add_assign_simd_accesses (w : nat) (octets other : list N) : list access :=
  let len := length octets in
  flat_map (fun i => acc_rw w (i * w)) (range 0 (len / w)) ++
  xor_u64_loop_accesses ((len - len mod w) / 8) (len / 8) ++
  xor_byte_loop_accesses (len - len mod 8) len.

Definition add_assign_avx512_accesses := add_assign_simd_accesses 64.
Definition add_assign_avx2_accesses := add_assign_simd_accesses 32.
Definition add_assign_ssse3_accesses := add_assign_simd_accesses 16.

(* OCTET_MUL.get_unchecked(scalar).get_unchecked(x) *)
Definition acc_mul (scalar x : N) : list access :=
  [(BMulOuter, N.to_nat scalar, 1); (BMulRow, N.to_nat x, 1)].

(* tail bytes are read before any store touches them, so the index is the input byte *)
Definition mul_byte_loop_accesses (a b : nat) (scalar : N) (octets : list N) : list access :=
  flat_map (fun i => (BOctets, i, 1) :: acc_mul scalar (nth i octets 0%N) ++ [(BOctets, i, 1)])
           (range a b).

Definition mulassign_scalar_fallback_accesses (octets : list N) (scalar : N) : list access :=
  flat_map (fun item => acc_mul scalar item) octets.

Definition acc_tables (nb : nat) : list access := [(BLowRow, O, nb); (BHiRow, O, nb)].

Definition mulassign_scalar_simd_accesses (w nb : nat) (octets : list N) (scalar : N)
  : list access :=
  let len := length octets in
  acc_tables nb ++
  flat_map (fun i => [(BOctets, i * w, w); (BOctets, i * w, w)]) (range 0 (len / w)) ++
  mul_byte_loop_accesses (len - len mod w) len scalar octets.

Definition mulassign_scalar_avx512_accesses := mulassign_scalar_simd_accesses 64 16.
Definition mulassign_scalar_avx2_accesses := mulassign_scalar_simd_accesses 32 32.
Definition mulassign_scalar_ssse3_accesses := mulassign_scalar_simd_accesses 16 16.

Definition fma_byte_loop_accesses (a b : nat) (scalar : N) (other : list N) : list access :=
  flat_map (fun i => (BOctets, i, 1) :: (BOther, i, 1) ::
                     acc_mul scalar (nth i other 0%N) ++ [(BOctets, i, 1)])
           (range a b).

Definition fused_addassign_mul_scalar_fallback_accesses (octets other : list N) (scalar : N)
  : list access := fma_byte_loop_accesses 0 (length octets) scalar other.

Definition fused_addassign_mul_scalar_simd_accesses (w nb : nat) (octets other : list N)
           (scalar : N) : list access :=
  let len := length octets in
  acc_tables nb ++
  flat_map (fun i => [(BOther, i * w, w); (BOctets, i * w, w); (BOctets, i * w, w)])
           (range 0 (len / w)) ++
  fma_byte_loop_accesses (len - len mod w) len scalar other.

Definition fused_addassign_mul_scalar_avx512_accesses :=
  fused_addassign_mul_scalar_simd_accesses 64 16.
Definition fused_addassign_mul_scalar_avx2_accesses :=
  fused_addassign_mul_scalar_simd_accesses 32 32.
Definition fused_addassign_mul_scalar_ssse3_accesses :=
  fused_addassign_mul_scalar_simd_accesses 16 16.

(* other_u32[k] = 4 bytes at byte offset 4k of the word buffer *)
Definition fused_addassign_mul_scalar_binary_avx2_accesses (octets : list N) (other : bvec)
  : list access :=
  let first_bit := N.to_nat (padding_bits other) in
  let start0 := (first_bit / 32) in
  let b := (first_bit mod 32) in
  let len := length octets in
  let head := if (0 <? b) then (32 - b) else O in
  let start := if (0 <? b) then (start0 + 1) else start0 in
  (BWords, (4 * start0), 4) ::
  flat_map (fun i => [(BOctets, i, 1); (BOctets, i, 1)]) (range 0 (Nat.min len head)) ++
  flat_map (fun i => [(BWords, (4 * (start + i)), 4);
                      (BOctets, (head + i * 32), 32); (BOctets, (head + i * 32), 32)])
           (range 0 ((len - head) / 32)).

Definition fused_addassign_mul_scalar_binary_avx512_accesses (octets : list N) (other : bvec)
  : list access :=
  if (length octets =? 0) then [] else
  let first_bit := N.to_nat (padding_bits other) in
  let start0 := (first_bit / 64) in
  let b := (first_bit mod 64) in
  let len := length octets in
  let head := if (0 <? b) then (64 - b) else O in
  let start := if (0 <? b) then (start0 + 1) else start0 in
  (BWords, (8 * start0), 8) ::
  flat_map (fun i => [(BOctets, i, 1); (BOctets, i, 1)]) (range 0 head) ++
  flat_map (fun i => (BWords, (8 * (start + i)), 8) ::
                     (if (nth (start + i) (fst other) 0 =? 0)%N then []       (* zero word: continue *)
                      else [(BOctets, (head + i * 64), 64); (BOctets, (head + i * 64), 64)]))
           (range 0 ((len - head) / 64)).
