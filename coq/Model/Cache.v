(* Model of the process-wide encoding-plan cache of src/encoder.rs:
     struct SourceBlockEncodingPlanCache { plans: HashMap<u16, Arc<Plan>>, insertion_order: VecDeque<u16> }
     fn get_or_generate_source_block_encoding_plan(symbol_count)
   as a transition system.  One request = three atomic steps of one thread:
     Lookup   = first critical section  (lock; plans.get(k); unlock)
     Generate = the unlocked SourceBlockEncodingPlan::generate(k)
     Insert   = second critical section (lock; plans.get(k) again; evict; push_back; insert; unlock)
   The Mutex makes each critical section atomic, so an execution of any number of threads is a
   sequence (schedule) of such steps; every interleaving is some schedule.
   A fourth step, Abort, models a request that dies between its critical sections (a panic in the
   unlocked part: SourceBlockEncodingPlan::generate refuses symbol counts above 56403, or the
   thread is torn down): the thread returns nothing and goes back to Idle, the cache is untouched.
   No modelled step can fail while the lock is held (the two critical sections only look up, pop,
   push and insert), which is why lock poisoning does not appear in the model.
   Plan generation is an arbitrary function [gen] of the symbol count (the only assumption).
   DEFINITIONS ONLY (proofs: Proofs/CacheProofs.v). *)
From Coq Require Import NArith List Bool Arith.
Import ListNotations.
Open Scope N_scope.

(* ---- HashMap<u16, V> as an association list (at most one entry per key is an invariant) ---- *)
Fixpoint assoc_get {A} (k : N) (l : list (N * A)) : option A :=
  match l with
  | [] => None
  | (k', v) :: t => if k' =? k then Some v else assoc_get k t
  end.

(* HashMap::remove *)
Definition assoc_remove {A} (k : N) (l : list (N * A)) : list (N * A) :=
  filter (fun kv => negb (fst kv =? k)) l.

(* HashMap::insert: replaces the value of an existing key, else adds the entry *)
Fixpoint assoc_insert {A} (k : N) (v : A) (l : list (N * A)) : list (N * A) :=
  match l with
  | [] => [(k, v)]
  | (k', v') :: t => if k' =? k then (k, v) :: t else (k', v') :: assoc_insert k v t
  end.

Definition keys {A} (l : list (N * A)) : list N := map fst l.

(* ---- threads ---- *)
Inductive pc (plan : Type) : Type :=
| Idle
| Missed (k : N)                  (* left the first critical section without a hit *)
| Generated (k : N) (p : plan).   (* holds `generated`, about to take the lock again *)
Arguments Idle {plan}.
Arguments Missed {plan} k.
Arguments Generated {plan} k p.

(* thread map: threads absent from the list are Idle *)
Fixpoint get_pc {plan} (t : nat) (l : list (nat * pc plan)) : pc plan :=
  match l with
  | [] => Idle
  | (t', c) :: r => if Nat.eqb t' t then c else get_pc t r
  end.

Fixpoint set_pc {plan} (t : nat) (c : pc plan) (l : list (nat * pc plan)) : list (nat * pc plan) :=
  match l with
  | [] => [(t, c)]
  | (t', c') :: r => if Nat.eqb t' t then (t, c) :: r else (t', c') :: set_pc t c r
  end.

(* ---- system state: the cache (under the Mutex) + every thread's program counter ---- *)
Record sysstate (plan : Type) : Type := mkSys {
  plans : list (N * plan);        (* guard.plans *)
  order : list N;                 (* guard.insertion_order, head = front *)
  threads : list (nat * pc plan)
}.
Arguments mkSys {plan} _ _ _.
Arguments plans {plan} _.
Arguments order {plan} _.
Arguments threads {plan} _.

Inductive step : Type :=
| Lookup (t : nat) (k : N)
| Generate (t : nat)
| Insert (t : nat)
| Abort (t : nat).

Definition step_thread (s : step) : nat :=
  match s with Lookup t _ => t | Generate t => t | Insert t => t | Abort t => t end.

(* the value returned by get_or_generate_source_block_encoding_plan(k) on thread t *)
Inductive event (plan : Type) : Type :=
| Ret (t : nat) (k : N) (p : plan).
Arguments Ret {plan} t k p.

Definition ev_thread {plan} (e : event plan) : nat := match e with Ret t _ _ => t end.

Definition rets_of {plan} (t : nat) (evs : list (event plan)) : list (event plan) :=
  filter (fun e => Nat.eqb (ev_thread e) t) evs.

Definition init {plan} : sysstate plan := mkSys [] [] [].

Section Cache.
  Variable plan : Type.
  Variable gen : N -> plan.        (* SourceBlockEncodingPlan::generate *)
  Variable capacity : nat.         (* SOURCE_BLOCK_ENCODING_PLAN_CACHE_CAPACITY *)

  (* first critical section:
       if let Some(plan) = guard.plans.get(&symbol_count) { return Arc::clone(plan); } *)
  Definition do_lookup (t : nat) (k : N) (st : sysstate plan) : sysstate plan * list (event plan) :=
    match get_pc t (threads st) with
    | Idle =>
        match assoc_get k (plans st) with
        | Some p => (st, [Ret t k p])
        | None => (mkSys (plans st) (order st) (set_pc t (Missed k) (threads st)), [])
        end
    | _ => (st, [])
    end.

  (* let generated = Arc::new(SourceBlockEncodingPlan::generate(symbol_count));   (no lock held) *)
  Definition do_generate (t : nat) (st : sysstate plan) : sysstate plan * list (event plan) :=
    match get_pc t (threads st) with
    | Missed k => (mkSys (plans st) (order st) (set_pc t (Generated k (gen k)) (threads st)), [])
    | _ => (st, [])
    end.

  (* if guard.plans.len() >= CAPACITY && let Some(evicted) = guard.insertion_order.pop_front()
       { guard.plans.remove(&evicted); }
     pop_front is evaluated only when the length test holds *)
  Definition evict (pl : list (N * plan)) (ord : list N) : list (N * plan) * list N :=
    if (capacity <=? length pl)%nat then
      match ord with
      | e :: rest => (assoc_remove e pl, rest)
      | [] => (pl, ord)
      end
    else (pl, ord).

  (* second critical section *)
  Definition do_insert (t : nat) (st : sysstate plan) : sysstate plan * list (event plan) :=
    match get_pc t (threads st) with
    | Generated k p =>
        match assoc_get k (plans st) with
        | Some p' =>
            (* if let Some(plan) = guard.plans.get(&symbol_count) { return Arc::clone(plan); } *)
            (mkSys (plans st) (order st) (set_pc t Idle (threads st)), [Ret t k p'])
        | None =>
            let '(pl1, ord1) := evict (plans st) (order st) in
            (* guard.insertion_order.push_back(symbol_count);
               guard.plans.insert(symbol_count, Arc::clone(&generated));
               generated *)
            (mkSys (assoc_insert k p pl1) (ord1 ++ [k]) (set_pc t Idle (threads st)), [Ret t k p])
        end
    | _ => (st, [])
    end.

  (* the request of thread t dies outside the critical sections: nothing is returned, nothing is cached *)
  Definition do_abort (t : nat) (st : sysstate plan) : sysstate plan * list (event plan) :=
    match get_pc t (threads st) with
    | Idle => (st, [])
    | _ => (mkSys (plans st) (order st) (set_pc t Idle (threads st)), [])
    end.

  (* a step that is not enabled for the thread's pc leaves the state unchanged, no event *)
  Definition exec (s : step) (st : sysstate plan) : sysstate plan * list (event plan) :=
    match s with
    | Lookup t k => do_lookup t k st
    | Generate t => do_generate t st
    | Insert t => do_insert t st
    | Abort t => do_abort t st
    end.

  Fixpoint run (sched : list step) (st : sysstate plan) : sysstate plan * list (event plan) :=
    match sched with
    | [] => (st, [])
    | s :: rest =>
        let '(st1, ev1) := exec s st in
        let '(st2, ev2) := run rest st1 in
        (st2, ev1 ++ ev2)
    end.

  (* one whole request executed without interruption (what a single thread does) *)
  Definition request (t : nat) (k : N) : list step := [Lookup t k; Generate t; Insert t].
End Cache.

Arguments do_lookup {plan} t k st.
Arguments do_generate {plan} gen t st.
Arguments evict {plan} capacity pl ord.
Arguments do_insert {plan} capacity t st.
Arguments do_abort {plan} t st.
Arguments exec {plan} gen capacity s st.
Arguments run {plan} gen capacity sched st.

(* ---- entry point for differential testing against the real cache ----
   plan := N, gen := id (a plan is identified with the symbol count it was generated for, which is
   what verif_encoder::plan_symbol_count observes).
   schedule element = (thread id, step kind 0=Lookup 1=Generate 2=Insert 3=Abort, key (Lookup only));
   any other kind is a no-op.
   Output, after EACH step:
     [ret_flag; returned plan (= its symbol count) or 0; length order] ++ order
       ++ [length plans] ++ keys of plans sorted ascending *)
Fixpoint insert_sorted (x : N) (l : list N) : list N :=
  match l with
  | [] => [x]
  | y :: t => if x <=? y then x :: l else y :: insert_sorted x t
  end.

Definition sort_N (l : list N) : list N := fold_right insert_sorted [] l.

Definition decode_step (e : N * N * N) : option step :=
  let '(t, kind, k) := e in
  match kind with
  | 0 => Some (Lookup (N.to_nat t) k)
  | 1 => Some (Generate (N.to_nat t))
  | 2 => Some (Insert (N.to_nat t))
  | 3 => Some (Abort (N.to_nat t))
  | _ => None
  end.

Definition observe (st : sysstate N) (evs : list (event N)) : list N :=
  (match evs with
   | Ret _ _ p :: _ => [1; p]
   | [] => [0; 0]
   end)
  ++ [N.of_nat (length (order st))] ++ order st
  ++ [N.of_nat (length (plans st))] ++ sort_N (keys (plans st)).

Fixpoint cache_trace_from (capacity : nat) (sched : list (N * N * N)) (st : sysstate N)
  : list (list N) :=
  match sched with
  | [] => []
  | e :: rest =>
      let '(st1, evs) :=
        match decode_step e with
        | Some s => exec (fun k => k) capacity s st
        | None => (st, [])
        end in
      observe st1 evs :: cache_trace_from capacity rest st1
  end.

Definition cache_trace (capacity : nat) (sched : list (N * N * N)) : list (list N) :=
  cache_trace_from capacity sched init.
