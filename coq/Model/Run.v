(* Dispatcher used by the correspondence check: the model's answer for one case line.
   Function codes are assigned in driver/fncodes.py (single source of the numbering). *)
From Coq Require Import NArith List Bool.
From RQ Require Import Base.Outcome Base.Ints Base.ListX Gen.Consts Spec.GF256 Spec.Wire Spec.Oti Spec.Rand Spec.Tuple Spec.Prime Spec.Tables_RFC Spec.Derive Model.Params Model.Octet Model.Wire Model.Oti Model.Cache Model.SysConst Model.Tuple Model.RunCodec Model.RunKern Model.RunMat Model.PiSolver.
Import ListNotations.
Open Scope N_scope.

(* result encoding: 1 :: values for a normal return, [0; class] for a panic *)
Definition pcode (c : pclass) : N :=
  match c with
  | PAssert => 1 | PIndex => 2 | POverflow => 3 | PUnreachable => 4
  | PUnimpl => 5 | PFuel => 6 | PDivZero => 7 | PUnwrap => 8
  end.

Definition enc1 (x : outcome N) : list N :=
  match x with Ok v => [1; v] | Panic c => [0; pcode c] end.
Definition encl (x : outcome (list N)) : list N :=
  match x with Ok l => 1 :: l | Panic c => [0; pcode c] end.

Definition arg (l : list N) (i : nat) : N := nth i l 0.

Definition run_octet (f : N) (a : list N) : list N :=
  match f with
  | 1 => [1; oct_add (arg a 0) (arg a 1)]
  | 2 => enc1 (oct_mul (arg a 0) (arg a 1))
  | 3 => enc1 (oct_div (arg a 0) (arg a 1))
  | 4 => enc1 (oct_fma (arg a 0) (arg a 1) (arg a 2))
  | 5 => enc1 (oct_alpha (arg a 0))
  | 6 => enc1 (tbl2 octet_mul_table (arg a 0) (arg a 1))
  | 7 => enc1 (tbl2 octet_mul_low_table (arg a 0) (arg a 1))
  | 8 => enc1 (tbl2 octet_mul_hi_table (arg a 0) (arg a 1))
  (* Spec oracles *)
  | 50 => [1; padd (arg a 0) (arg a 1)]
  | 51 => [1; pmul (arg a 0) (arg a 1)]
  | 52 => [1; ppow2 (N.to_nat (arg a 0))]
  | _ => [0; 99]
  end.

Definition b2n (b : bool) : N := if b then 1 else 0.
Definition enc_pid (x : outcome (N * N)) : list N :=
  match x with Ok (s, e) => [1; s; e] | Panic c => [0; pcode c] end.
Definition oti_list (x : oti) : list N := let '(F, T, Z, Nsub, Al) := x in [F; T; Z; Nsub; Al].
Definition enc_oti (x : outcome oti) : list N :=
  match x with Ok o => 1 :: oti_list o | Panic c => [0; pcode c] end.

Fixpoint triples (l : list N) : list (N * N * N) :=
  match l with
  | a :: b :: c :: t => (a, b, c) :: triples t
  | _ => []
  end.

(* wire formats, OTI constructor, plan cache: 100..199; Spec oracles 150..199 *)
Definition run_wire (f : N) (a : list N) : list N :=
  match f with
  | 100 => enc_pid (pid_new (arg a 0) (arg a 1))
  | 101 => encl (omap pid_ser (pid_new (arg a 0) (arg a 1)))
  | 102 => encl (omap (fun p => [fst p; snd p] ++ pid_ser p) (pid_deser (firstn 4 a)))
  | 103 => encl (omap (fun p => pkt_ser (p, skipn 2 a)) (pid_new (arg a 0) (arg a 1)))
  | 104 => encl (omap (fun p => fst (fst p) :: snd (fst p) :: snd p) (pkt_deser a))
  | 105 => encl (omap oti_ser (oti_new Release (arg a 0) (arg a 1) (arg a 2) (arg a 3) (arg a 4)))
  | 106 => encl (omap (fun o => oti_list o ++ oti_ser o) (oti_deser (firstn 12 a)))
  | 110 => enc_oti (oti_new Release (arg a 0) (arg a 1) (arg a 2) (arg a 3) (arg a 4))
  | 111 => enc_oti (oti_new Checked (arg a 0) (arg a 1) (arg a 2) (arg a 3) (arg a 4))
  | 112 => enc_oti (oti_new_pinned Release (arg a 0) (arg a 1) (arg a 2) (arg a 3) (arg a 4))
  | 120 => 1 :: concat (cache_trace (N.to_nat PLAN_CACHE_CAPACITY) (triples a))
  (* Spec oracles *)
  | 150 => 1 :: payload_id_wire (arg a 0) (arg a 1)
  | 151 => 1 :: oti_wire (arg a 0) (arg a 1) (arg a 2) (arg a 3) (arg a 4)
  | 152 => [1; b2n (oti_validb (arg a 0) (arg a 1) (arg a 2) (arg a 4))]
  | 153 => 1 :: be (N.to_nat (arg a 0)) (arg a 1)
  | _ => [0; 99]
  end.

(* end-to-end codec groups: 200..249 Release, 210.. Checked, 250.. Spec oracles *)
Definition run_codec (f : N) (a : list N) : list N :=
  match f with
  | 200 => run_enc_packets Release a
  | 201 => run_repair_window Release a
  | 202 => run_codec_hist Release a
  | 203 => run_sbd_hist Release a
  | 204 => run_intermediate Release a
  | 210 => run_enc_packets Checked a
  | 211 => run_repair_window Checked a
  | 212 => run_codec_hist Checked a
  | 213 => run_sbd_hist Checked a
  | 214 => run_intermediate Checked a
  | 205 => run_layout_packets Release a
  | 206 => run_layout_roundtrip Release a
  | 207 => run_slab_replay Release a
  | 217 => run_slab_replay Checked a
  | 250 => run_spec_block_packets a
  | 252 => run_cert_ok a
  | 253 => run_check_intermediate a
  | 254 => run_check_intermediate_rfc a
  | 255 => run_check_rows_rfc a
  | 256 => run_spec_enc_from_C a
  | 208 => run_cm_rows Release a
  | 218 => run_cm_rows Checked a
  | 251 => run_spec_layout_packets a
  | _ => [0; 99]
  end.

(* systematic constants, rand, deg, tuples: 300..349; Spec oracles 350.. *)
Definition enc_t6 (x : outcome (N * N * N * N * N * N)) : list N :=
  match x with
  | Ok (d, a0, b, d1, a1, b1) => [1; d; a0; b; d1; a1; b1]
  | Panic c => [0; pcode c]
  end.
Definition t6_of (a : list N) : N * N * N * N * N * N :=
  (arg a 0, arg a 1, arg a 2, arg a 3, arg a 4, arg a 5).

Definition run_tuple (f : N) (a : list N) : list N :=
  match f with
  | 300 => enc1 (extended_source_block_symbols (arg a 0))
  | 301 => enc1 (systematic_index (arg a 0))
  | 302 => enc1 (num_hdpc_symbols (arg a 0))
  | 303 => enc1 (num_ldpc_symbols (arg a 0))
  | 304 => enc1 (num_lt_symbols (arg a 0))
  | 305 => enc1 (num_intermediate_symbols (arg a 0))
  | 306 => enc1 (num_pi_symbols (arg a 0))
  | 307 => enc1 (calculate_p1 (arg a 0))
  | 310 => enc1 (rand_gen true Release (arg a 0) (arg a 1) (arg a 2))
  | 311 => enc1 (rand_gen true Checked (arg a 0) (arg a 1) (arg a 2))
  | 312 => enc1 (deg Release (arg a 0) (arg a 1))
  | 313 => enc1 (deg Checked (arg a 0) (arg a 1))
  | 314 => enc_t6 (intermediate_tuple_gen true Release (arg a 0) (arg a 1) (arg a 2) (arg a 3))
  | 315 => enc_t6 (intermediate_tuple_gen true Checked (arg a 0) (arg a 1) (arg a 2) (arg a 3))
  | 316 => encl (enc_indices Release (t6_of a) (arg a 6) (arg a 7) (arg a 8))
  | 317 => encl (enc_indices Checked (t6_of a) (arg a 6) (arg a 7) (arg a 8))
  | 318 => enc_t6 (intermediate_tuple_gen false Checked (arg a 0) (arg a 1) (arg a 2) (arg a 3))
  | 320 => enc_oti (gen_params true Release (arg a 0) (arg a 1) (arg a 2))
  | 321 => enc_oti (gen_params true Checked (arg a 0) (arg a 1) (arg a 2))
  | 322 => enc_oti (Model.Params.with_defaults true Release (arg a 0) (arg a 1))
  | 323 => enc_oti (Model.Params.with_defaults true Checked (arg a 0) (arg a 1))
  | 324 => enc_oti (gen_params false Release (arg a 0) (arg a 1) (arg a 2))
  | 350 => [1; Rand (arg a 0) (arg a 1) (arg a 2)]
  | 353 => [1; b2n (Db (arg a 0) (arg a 1) (arg a 2)); arg a 0; T_of (arg a 1); Z_of (arg a 0) (arg a 1) (arg a 2);
            N_of (arg a 0) (arg a 1) (arg a 2); Al_of (arg a 1)]
  | 351 => enc_t6 (Ok (Tuple (arg a 2) (arg a 1) (arg a 3) (arg a 0)))
  | 352 => [1; if is_prime (arg a 0) then 1 else 0]
  (* [J; X0; n] -> v = Rand[y(X),0,2^20] for X = X0 .. X0+n-1 (to find tuples at degree-table boundaries) *)
  (* RFC snapshot row selected by K: K' J S H W ; Deg of the Spec *)
  | 355 => match find (fun r => let '(k, _, _, _, _) := r in arg a 0 <=? k) Spec.Tables_RFC.RFC_TABLE2 with
           | Some (k, j, s, h, w) => [1; k; j; s; h; w] | None => [0; 0] end
  | 356 => [1; Spec.Tuple.Deg (arg a 0) (arg a 1)]
  | 354 => 1 :: map (fun i => Rand (Tuple_y (arg a 0) (arg a 1 + i)) 0 (2 ^ 20)) (rangeN (N.to_nat (arg a 2)))
  | _ => [0; 99]
  end.

(* the executable model of pi_solver.rs: operation lists, to be compared token by token with the real
   solver's on the dense back-end.  600/601: [K] encoding system; 602/603: [K, no_hdpc, isis...] *)
Definition enc_sol (x : outcome (option (list N))) : list N :=
  match x with
  | Ok (Some v) => 1 :: 1 :: v
  | Ok None => [1; 0]
  | Panic c => [0; pcode c]
  end.
Definition run_pisolver (f : N) (a : list N) : list N :=
  match f with
  | 600 => enc_sol (pi_plan_run Release (arg a 0))
  | 601 => enc_sol (pi_plan_run Checked (arg a 0))
  | 602 => enc_sol (omap (option_map flat_ops)
             (if arg a 1 =? 0 then pi_system_run Release (arg a 0) (skipn 2 a)
              else pi_system_run_no_hdpc Release (arg a 0) (skipn 2 a)))
  | 603 => enc_sol (omap (option_map flat_ops)
             (if arg a 1 =? 0 then pi_system_run Checked (arg a 0) (skipn 2 a)
              else pi_system_run_no_hdpc Checked (arg a 0) (skipn 2 a)))
  | _ => [0; 99]
  end.

Definition run (f : N) (a : list N) : list N :=
  if f <? 100 then run_octet f a
  else if f <? 200 then run_wire f a
  else if f <? 300 then run_codec f a
  else if f <? 400 then run_tuple f a
  else if f <? 500 then run_kern f a
  else if f <? 600 then run_mat f a
  else if f <? 700 then run_pisolver f a
  else [0; 99].
