(* Dispatcher used by the correspondence check: the model's answer for one case line.
   Function codes are assigned in driver/fncodes.py (single source of the numbering). *)
From Coq Require Import NArith List Bool.
From RQ Require Import Base.Outcome Base.Ints Base.ListX Spec.GF256 Model.Octet.
Import ListNotations.
Open Scope N_scope.

(* result encoding: 1 :: values for a normal return, [0; class] for a panic *)
Definition pcode (c : pclass) : N :=
  match c with
  | PAssert => 1 | PIndex => 2 | POverflow => 3 | PUnreachable => 4
  | PUnimpl => 5 | PFuel => 6 | PDivZero => 7 | PUnwrap => 8
  end.

Definition enc1 (x : outcome N) : list N :=
  match x with Ok v => [1; v] | Panic c => [0; pcode c] end.
Definition encl (x : outcome (list N)) : list N :=
  match x with Ok l => 1 :: l | Panic c => [0; pcode c] end.

Definition arg (l : list N) (i : nat) : N := nth i l 0.

Definition run_octet (f : N) (a : list N) : list N :=
  match f with
  | 1 => [1; oct_add (arg a 0) (arg a 1)]
  | 2 => enc1 (oct_mul (arg a 0) (arg a 1))
  | 3 => enc1 (oct_div (arg a 0) (arg a 1))
  | 4 => enc1 (oct_fma (arg a 0) (arg a 1) (arg a 2))
  | 5 => enc1 (oct_alpha (arg a 0))
  | 6 => enc1 (tbl2 octet_mul_table (arg a 0) (arg a 1))
  | 7 => enc1 (tbl2 octet_mul_low_table (arg a 0) (arg a 1))
  | 8 => enc1 (tbl2 octet_mul_hi_table (arg a 0) (arg a 1))
  (* Spec oracles *)
  | 50 => [1; padd (arg a 0) (arg a 1)]
  | 51 => [1; pmul (arg a 0) (arg a 1)]
  | 52 => [1; ppow2 (N.to_nat (arg a 0))]
  | _ => [0; 99]
  end.

Definition run (f : N) (a : list N) : list N :=
  if f <? 100 then run_octet f a
  else [0; 99].
