(* Case decoding for the end-to-end codec groups of the correspondence check (see harness/src/codec.rs
   for the matching implementation side).  Definitions only. *)
From Coq Require Import NArith List Bool FMapPositive.
From RQ Require Import Base.Outcome Base.Ints Base.ListX Spec.Linear Spec.Layout Spec.Code Spec.Tuple Spec.Prime Spec.Tables_RFC
  Model.Octet Model.FieldFast Model.SysConst Model.Tuple Model.CMatrix Model.Layout Model.Slab
  Model.Encoder Model.Decoder Model.CertFast Model.CertRun.
Import ListNotations.
Open Scope N_scope.
Open Scope outcome_scope.

Definition argn (l : list N) (i : nat) : N := nth i l 0.
Definition cfg_of (a : list N) : cfg := mkCfg (argn a 0) (argn a 1) (argn a 2) (argn a 3) (argn a 4).

Definition flat_packets (l : list ((N * N) * list N)) : list N :=
  flat_map (fun p => fst (fst p) :: snd (fst p) :: snd p) l.

Definition enc1l (x : outcome (list N)) : list N :=
  match x with Ok l => 1 :: l | Panic _ => [0; 0] end.

(* ObjectTransmissionInformation::new is called by the harness first: invalid configs panic there *)
Definition cfg_guard (m : mode) (c : cfg) : outcome unit :=
  assert_ok (cF c <=? 942574504275) ;;;
  r <- rem_ok (cT c) (cAl c) ;;
  assert_ok (r =? 0) ;;;
  if negb (cT c =? 0) && negb (cZ c =? 0)
  then assert_ok (ceil_div (ceil_div (cF c) (cT c)) (cZ c) <=? 56403) else Ok tt.

(* [F,T,Z,N,Al, nrep, data...] *)
Definition run_enc_packets (m : mode) (a : list N) : list N :=
  enc1l (let c := cfg_of a in
         cfg_guard m c ;;;
         encs <- encoder_new_full m c (skipn 6 a) ;;
         pk <- get_encoded_packets m encs (argn a 5) ;;
         Ok (flat_packets pk)).

(* [F,T,Z,N,Al, block, start, n, data...] *)
Definition run_repair_window (m : mode) (a : list N) : list N :=
  enc1l (let c := cfg_of a in
         cfg_guard m c ;;;
         encs <- encoder_new_full m c (skipn 8 a) ;;
         e <- nth_ok encs (N.to_nat (argn a 5)) ;;
         pk <- sbe_repair_packets m e (argn a 6) (argn a 7) ;;
         Ok (flat_packets pk)).

Fixpoint triples3 (n : nat) (l : list N) : list (N * N * N) :=
  match n, l with
  | S k, x :: y :: z :: t => (x, y, z) :: triples3 k t
  | _, _ => []
  end.

(* the packet with id (sbn, esi) as the block encoder produces it *)
Definition packet_of (m : mode) (encs : list sb_encoder) (sbn esi : N) : outcome ((N * N) * list N) :=
  e <- nth_ok encs (N.to_nat sbn) ;;
  let K := lenN (sbe_syms e) in
  if esi <? K then
    src <- sbe_source_packets e ;; nth_ok src (N.to_nat esi)
  else
    r <- sbe_repair_packets m e (esi - K) 1 ;; nth_ok r 0.

Definition list_eqb (u v : list N) : bool := vec_eqb u v.

(* flags per step (0 None / 1 Some equal to the first Some / 9 Some but different), final bytes *)
Definition flag_of (first : option (list N)) (r : option (list N)) : N * option (list N) :=
  match r with
  | None => (0, first)
  | Some b => match first with
              | None => (1, Some b)
              | Some f => (if list_eqb f b then 1 else 9, first)
              end
  end.

(* [F,T,Z,N,Al, thr, nsteps, (kind,sbn,esi)*, data...] ; clone is the identity on a value *)
Definition run_codec_hist (m : mode) (a : list N) : list N :=
  enc1l (let c := cfg_of a in
         cfg_guard m c ;;;
         let n := N.to_nat (argn a 6) in
         let steps := triples3 n (skipn 7 a) in
         let data := skipn (7 + 3 * n) a in
         encs <- encoder_new_full m c data ;;
         d0 <- dec_new c ;;
         r <- ofold (fun st (acc : list N * option (list N) * option (list N) * decoder) =>
                 let '(flags, first, last, d) := acc in
                 let '(kind, sbn, esi) := st in
                 p <- packet_of m encs sbn esi ;;
                 '(res, d') <- dec_decode m d p ;;
                 let '(fl, first') := flag_of first res in
                 Ok (flags ++ [fl], first', res, d'))
               steps ([], None, None, d0) ;;
         let '(flags, first, last, d) := r in
         Ok (flags ++ match last with Some b => b | None => [] end)).

Fixpoint take_batches (n : nat) (l : list N) : list (list N) * list N :=
  match n with
  | O => ([], l)
  | S k => match l with
           | [] => ([], [])
           | len :: t => let b := firstn (N.to_nat len) t in
                         let '(bs, rest) := take_batches k (skipn (N.to_nat len) t) in
                         (b :: bs, rest)
           end
  end.

(* [K,T,Nsub,Al, thr, nbatches, (len, esis...)*, data(K*T)...] *)
Definition run_sbd_hist (m : mode) (a : list N) : list N :=
  enc1l (let K := argn a 0 in let T := argn a 1 in
         let c := mkCfg (K * T) T 1 (argn a 2) (argn a 3) in
         cfg_guard m c ;;;
         let '(batches, data) := take_batches (N.to_nat (argn a 5)) (skipn 6 a) in
         e <- sbe_new m 0 c data ;;
         d0 <- sbd_new 0 c (K * T) ;;
         r <- ofold (fun b (acc : list N * option (list N) * option (list N) * sb_decoder) =>
                 let '(flags, first, last, d) := acc in
                 pk <- omapM (fun esi => packet_of m [e] 0 esi) b ;;
                 '(res, d') <- sbd_decode m d pk ;;
                 let '(fl, first') := flag_of first res in
                 Ok (flags ++ [fl], first', res, d'))
               batches ([], None, None, d0) ;;
         let '(flags, first, last, d) := r in
         Ok (flags ++ match last with Some b => b | None => [] end)).

(* [T, variant, thr, data(K*T)...] -> the L intermediate symbols *)
Definition run_intermediate (m : mode) (a : list N) : list N :=
  enc1l (let T := argn a 0 in
         let data := skipn 3 a in
         k <- div_ok (lenN data) T ;;
         let c := mkCfg (k * T) T 1 1 1 in
         cfg_guard m c ;;;
         e <- sbe_new m 0 c data ;;
         Ok (concat (sbe_C e))).

(* ---- Spec oracle: packets as RFC 6330 prescribes them, through Spec.Code only ---- *)
(* parameters from the RFC snapshot (Spec/Tables_RFC.v), NOT from the tables of the current source:
   K' = least table size >= K, P1 = least prime >= P by search *)
Fixpoint next_prime (fuel : nat) (n : N) : N :=
  match fuel with
  | O => n
  | S f => if Spec.Prime.is_prime n then n else next_prime f (n + 1)
  end.

Definition spec_params (K : N) : option cparams :=
  match find (fun r => let '(k, _, _, _, _) := r in K <=? k) Spec.Tables_RFC.RFC_TABLE2 with
  | Some (k, j, s, h, w) => Some (mkCP k j s h w (next_prime 200 (k + s + h - w)))
  | None => None
  end.

(* [T, nrep_start, nrep, data(K*T)] single block, N = 1: K source symbols then the repair symbols
   with ESI K+start .. K+start+nrep-1, each Enc[K', C, Tuple[K', X + K' - K]] *)
Definition run_spec_block_packets (a : list N) : list N :=
  let T := argn a 0 in
  let data := skipn 3 a in
  let K := lenN data / T in
  match spec_params K with
  | None => [0; 0]
  | Some p =>
      let Tn := N.to_nat T in
      let syms := chunks T data in
      let L := N.to_nat (cL p) in
      let D := repeat (repeat 0 Tn) (N.to_nat (cS p + cH p)) ++ syms ++
               repeat (repeat 0 Tn) (N.to_nat (cK p - K)) in
      match gauss_solve fmul finv Tn L (A_rfc p (rangeN (N.to_nat (cK p)))) D with
      | None => [0; 0]
      | Some C =>
          1 :: flat_map (fun i => 0 :: i :: nth (N.to_nat i) syms []) (rangeN (N.to_nat K)) ++
               flat_map (fun i => let esi := K + argn a 1 + i in
                                  0 :: esi :: Enc p Tn C (Tuple_of p (esi + (cK p - K))))
                        (rangeN (N.to_nat (argn a 2)))
      end
  end.

(* ---- layout-only cases (C05): no solving involved ---- *)
(* [F,T,Z,N,Al, data...] -> source packets of the object *)
Definition run_layout_packets (m : mode) (a : list N) : list N :=
  enc1l (let c := cfg_of a in
         cfg_guard m c ;;;
         pk <- source_packets_of_object c (skipn 5 a) ;;
         Ok (flat_packets pk)).

(* [F,T,Z,N,Al, order_seed, data...] -> all source packets delivered to a Decoder (in the order given by
   rotating the packet list by order_seed), final result *)
Definition rotate {A} (n : nat) (l : list A) : list A :=
  let r := Nat.modulo n (length l + 1) in skipn r l ++ firstn r l.
Definition run_layout_roundtrip (m : mode) (a : list N) : list N :=
  enc1l (let c := cfg_of a in
         cfg_guard m c ;;;
         pk <- source_packets_of_object c (skipn 6 a) ;;
         d0 <- dec_new c ;;
         r <- ofold (fun p (acc : option (list N) * decoder) =>
                 '(res, d') <- dec_decode m (snd acc) p ;; Ok (res, d'))
               (rotate (N.to_nat (argn a 5)) pk) (None, d0) ;;
         Ok (match fst r with Some b => 1 :: b | None => [0] end)).

(* Spec oracle: [F,T,Z,N,Al, data...] -> RFC 4.4.1.2 source packets *)
Definition run_spec_layout_packets (a : list N) : list N :=
  1 :: flat_packets (source_packets_spec (cfg_of a) (skipn 5 a)).

(* ---- slab replay (C09): [T, count, nread, nopvals, opvals..., data...] ---- *)
Fixpoint decode_ops (fuel : nat) (v : list N) : list symbol_op :=
  match fuel with
  | O => []
  | S f =>
      match v with
      | 1 :: d :: s :: t => SAdd d s :: decode_ops f t
      | 2 :: d :: c :: t => SMul d c :: decode_ops f t
      | 3 :: d :: s :: c :: t => SFMA d s c :: decode_ops f t
      | _ :: n :: t => SReorder (firstn (N.to_nat n) t) :: decode_ops f (skipn (N.to_nat n) t)
      | _ => []
      end
  end.

Definition run_slab_replay (m : mode) (a : list N) : list N :=
  enc1l (let T := argn a 0 in let count := N.to_nat (argn a 1) in
         let nread := N.to_nat (argn a 2) in let nv := N.to_nat (argn a 3) in
         let ops := decode_ops nv (firstn nv (skipn 4 a)) in
         let data := skipn (4 + nv) a in
         (* SymbolSlab::from_symbols asserts every symbol has length T *)
         let syms := firstn count (chunks (N.max T 1) data) in
         assert_ok (forallb (fun s => Nat.eqb (length s) (N.to_nat T)) syms) ;;;
         s' <- replay m ops (mkSlab syms (N.to_nat T) None) ;;
         r <- slab_read s' nread 0 ;;
         Ok (concat r)).

(* ---- certificate check through the extracted model (validation for K' beyond the in-kernel bound) ---- *)
(* [K, plan values...] -> 1 if cert_ok *)
Definition run_cert_ok (a : list N) : list N :=
  [1; if cert_ok (argn a 0) (skipn 1 a) then 1 else 0].

(* [T, data(K*T)..., then L*T bytes of intermediate symbols] with K given first: [K, T, data, C] ->
   1 if the given symbols satisfy every row of the model's constraint system for that block *)
Definition run_check_intermediate (a : list N) : list N :=
  let K := argn a 0 in let T := argn a 1 in
  let Tn := N.to_nat T in
  match sys_params K, enc_matrix K with
  | Ok sp, Ok A =>
      let data := firstn (N.to_nat (K * T)) (skipn 2 a) in
      let cbytes := skipn (2 + N.to_nat (K * T)) a in
      let C := chunks T cbytes in
      let D := create_d sp (chunks T data) Tn in
      [1; if forallb (fun rd => vec_eqb (lincomb fmul Tn (fst rd) C) (snd rd)) (combine A D)
             && Nat.eqb (length C) (N.to_nat (spL sp)) then 1 else 0]
  | _, _ => [0; 0]
  end.

(* ---- structure of the encoding constraint matrix for ANY block size, row by row (cheap: no solving) ----
   [K, rows...] -> for each requested binary-matrix row index r: the number of ones and their columns (ascending).
   LDPC rows (r < S) come from the sparse LDPC builder, G_ENC rows (r >= S+H, ISI r-S-H) from the tuple. *)
Definition insert_sorted_N (x : N) (l : list N) : list N :=
  (fix go l := match l with [] => [x] | y :: t => if x <? y then x :: y :: t else if x =? y then y :: t else y :: go t end) l.

Definition run_cm_rows (m : mode) (a : list N) : list N :=
  let K := argn a 0 in
  let rows := skipn 1 a in
  match sys_params K with
  | Panic _ => [0; 0]
  | Ok sp =>
      let Kp := spK sp in let S := spS sp in let H := spH sp in let W := spW sp in
      let P := spP sp in let L := spL sp in
      match set_ldpc_s (S + H + Kp) L S (W - S) W P (PositiveMap.empty srow) with
      | Panic _ => [0; 0]
      | Ok ld =>
          enc1l (r <- omapM (fun r =>
                    if r <? S then
                      let cols := map (fun kv => Pos.pred_N (fst kv)) (get_row ld r) in
                      Ok (N.of_nat (length cols) :: cols)
                    else if r <? S + H then Ok [0]
                    else
                      t <- intermediate_tuple_gen true m (r - S - H) W (spJ sp) (spP1 sp) ;;
                      idx <- enc_indices m t W P (spP1 sp) ;;
                      let cols := fold_right insert_sorted_N [] idx in
                      Ok (N.of_nat (length cols) :: cols)) rows ;;
                 Ok (concat r))
      end
  end.

(* [K, T, data(K*T), C(L*T)] against the RFC snapshot: parameters from Spec/Tables_RFC.v, matrix A_rfc *)
Definition run_check_intermediate_rfc (a : list N) : list N :=
  let K := argn a 0 in let T := argn a 1 in
  let Tn := N.to_nat T in
  match spec_params K with
  | None => [0; 0]
  | Some p =>
      let data := firstn (N.to_nat (K * T)) (skipn 2 a) in
      let C := chunks T (skipn (2 + N.to_nat (K * T)) a) in
      let D := repeat (repeat 0 Tn) (N.to_nat (cS p + cH p)) ++ chunks T data ++
               repeat (repeat 0 Tn) (N.to_nat (cK p - K)) in
      let A := A_rfc p (rangeN (N.to_nat (cK p))) in
      [1; if Nat.eqb (length C) (N.to_nat (cL p)) &&
             forallb (fun rd => vec_eqb (lincomb fmul Tn (fst rd) C) (snd rd)) (combine A D) then 1 else 0]
  end.

(* ---- RFC relations checked directly on given intermediate symbols, for ANY block size, in O(L) map operations:
   the RFC's own statements "D[b] = D[b] + C[i]" for the LDPC relations (5.3.3.3) accumulated per relation, and
   Enc[K', C, Tuple[K', i]] = source symbol i (zero for padding) for every i < K'; parameters from the RFC snapshot.
   HDPC relations are not checked here (certificates and the dense check cover them).
   [K, T, data(K*T), C(L*T)] -> 1 if all hold and |C| = L *)
Definition pm_of_list (l : list (list N)) : PositiveMap.t (list N) :=
  snd (fold_left (fun st x => let '(i, m) := st in (i + 1, PositiveMap.add (N.succ_pos i) x m)) l (0, PositiveMap.empty (list N))).
Definition pm_get (T : nat) (m : PositiveMap.t (list N)) (i : N) : list N :=
  match PositiveMap.find (N.succ_pos i) m with Some x => x | None => repeat 255 T end.
Definition pm_xor (T : nat) (m : PositiveMap.t (list N)) (i : N) (v : list N) : PositiveMap.t (list N) :=
  PositiveMap.add (N.succ_pos i) (vxor (match PositiveMap.find (N.succ_pos i) m with Some x => x | None => repeat 0 T end) v) m.

(* linear-time chunking (Model.Layout.chunks is quadratic on long lists) *)
Fixpoint chunks_lin (fuel : nat) (t : nat) (l : list N) : list (list N) :=
  match fuel with
  | O => []
  | S f => match l with [] => [] | _ => firstn t l :: chunks_lin f t (skipn t l) end
  end.

Definition run_check_rows_rfc (a : list N) : list N :=
  let K := argn a 0 in let T := argn a 1 in
  let Tn := N.to_nat T in
  match spec_params K with
  | None => [0; 0]
  | Some p =>
      let syms := chunks_lin (N.to_nat K) Tn (firstn (N.to_nat (K * T)) (skipn 2 a)) in
      let Cl := chunks_lin (S (N.to_nat (cL p))) Tn (skipn (2 + N.to_nat (K * T)) a) in
      let C := pm_of_list Cl in
      let S := cS p in let B := cB p in let W := cW p in let P := cP p in
      (* LDPC relations, accumulated as the RFC states them *)
      let acc1 := fold_left (fun m i =>
                    let a0 := 1 + i / S in
                    let b0 := i mod S in let b1 := (b0 + a0) mod S in let b2 := (b1 + a0) mod S in
                    let ci := pm_get Tn C i in
                    pm_xor Tn (pm_xor Tn (pm_xor Tn m b0 ci) b1 ci) b2 ci)
                  (rangeN (N.to_nat B)) (PositiveMap.empty (list N)) in
      let acc2 := fold_left (fun m i =>
                    pm_xor Tn (pm_xor Tn (pm_xor Tn m i (pm_get Tn C (B + i))) i (pm_get Tn C (W + i mod P)))
                           i (pm_get Tn C (W + (i + 1) mod P)))
                  (rangeN (N.to_nat S)) acc1 in
      let zero := repeat 0 Tn in
      let ldpc_ok := forallb (fun i => vec_eqb (pm_get Tn acc2 i) zero) (rangeN (N.to_nat S)) in
      (* LT relations *)
      let symm := pm_of_list syms in
      let enc_ok := forallb (fun i =>
                      let want := if i <? K then pm_get Tn symm i else zero in
                      let got := fold_left (fun acc j => vxor acc (pm_get Tn C j)) (Enc_indices p (Tuple_of p i)) zero in
                      vec_eqb got want) (rangeN (N.to_nat (cK p))) in
      [1; if Nat.eqb (length Cl) (N.to_nat (cL p)) && ldpc_ok && enc_ok then 1 else 0]
  end.

(* [K, T, esi, C(L*T)...] -> Enc[K', C, Tuple[K', esi + K' - K]] with the RFC-snapshot parameters and the Spec tuple,
   on GIVEN intermediate symbols (for block sizes too large to solve with the reference elimination) *)
Definition run_spec_enc_from_C (a : list N) : list N :=
  let K := argn a 0 in let T := argn a 1 in let esi := argn a 2 in
  let Tn := N.to_nat T in
  match spec_params K with
  | None => [0; 0]
  | Some p =>
      let C := pm_of_list (chunks_lin (S (N.to_nat (cL p))) Tn (skipn 3 a)) in
      1 :: fold_left (fun acc j => vxor acc (pm_get Tn C j)) (Enc_indices p (Tuple_of p (esi + (cK p - K)))) (repeat 0 Tn)
  end.
