(* C06: running an encoding-plan certificate.
   A plan dumped by the harness (SourceBlockEncodingPlan::generate(K) of the CURRENT source tree) is a
   flat list of numbers:  1 dest src (AddAssign) | 2 dest scalar (MulAssign) | 3 dest src scalar (FMA)
   | 4 len order_0 .. order_{len-1} (Reorder, only as the last operation).
   cert_ok K v decodes the plan, builds the model's constraint matrix for K (sparsely:
   enc_matrix_sparse, shown equal to the matrix of Model/CMatrix.v in Proofs/CertSparseProofs.v) and
   checks with the fast sparse checker of Model/CertFast.v that the plan reduces that matrix to the
   identity up to the final reorder, together with the side conditions the soundness theorems need
   (order duplicate-free, no FMA by 0 or 1).  cert_ok_dense is the same check against the dense
   matrix itself.  DEFINITIONS ONLY (Proofs/CertRunProofs.v, Proofs/CertSparseProofs.v). *)
From Coq Require Import NArith PArith List Bool FMapPositive.
From RQ Require Import Base.Outcome Base.Ints Base.ListX Spec.Linear
  Model.FieldFast Model.CertFast Model.SysConst Model.Tuple Model.CMatrix Model.Slab.
Import ListNotations.
Open Scope N_scope.

(* ---- decoding the flat plan ---- *)

(* the operations before the final Reorder, and the reorder's order *)
Fixpoint decode_plan (v : list N) : option (list fop * list N) :=
  match v with
  | [] => None
  | tag :: rest =>
      if tag =? 1 then
        match rest with
        | d :: s :: t =>
            match decode_plan t with Some (ops, ord) => Some (FAdd d s :: ops, ord) | None => None end
        | _ => None
        end
      else if tag =? 2 then
        match rest with
        | d :: c :: t =>
            match decode_plan t with Some (ops, ord) => Some (FMul d c :: ops, ord) | None => None end
        | _ => None
        end
      else if tag =? 3 then
        match rest with
        | d :: s :: c :: t =>
            match decode_plan t with Some (ops, ord) => Some (FFMA d s c :: ops, ord) | None => None end
        | _ => None
        end
      else if tag =? 4 then
        match rest with
        | len :: ord => if N.of_nat (length ord) =? len then Some ([], ord) else None
        | [] => None
        end
      else None
  end.

Definition sop_of (o : fop) : symbol_op :=
  match o with
  | FAdd d s => SAdd d s
  | FMul d c => SMul d c
  | FFMA d s c => SFMA d s c
  end.

(* the same plan as the operation list the slab model replays (Reorder last) *)
Definition plan_symbol_ops (v : list N) : list symbol_op :=
  match decode_plan v with
  | Some (ops, ord) => map sop_of ops ++ [SReorder ord]
  | None => []
  end.

(* the plan in the vocabulary of Spec/Linear.v: row operations, read-out order, and the symbols
   obtained from a right-hand side D *)
Definition plan_ops (v : list N) : list symop :=
  match decode_plan v with Some (ops, _) => map op_of ops | None => [] end.
Definition plan_order (v : list N) : list nat :=
  match decode_plan v with Some (_, ord) => map N.to_nat ord | None => [] end.
Definition plan_solution (v : list N) (D : list (list N)) : list (list N) :=
  read_out (plan_order v) (apply_ops fmul (plan_ops v) D).

(* ---- the model's encoding matrix ---- *)

Open Scope outcome_scope.

Definition enc_matrix_m (m : mode) (K : N) : outcome (list (list N)) :=
  sp <- sys_params K ;;
  '(bin, hdpc) <- generate_constraint_matrix m K (rangeN (N.to_nat (spK sp))) ;;
  Ok (full_matrix (spS sp) (spH sp) bin hdpc).

Definition enc_matrix (K : N) : outcome (list (list N)) := enc_matrix_m Release K.

Close Scope outcome_scope.

(* ---- the same matrix built sparsely (no L x L list of lists) ----
   Same statements as Model/CMatrix.v set_ldpc / set_enc / generate_constraint_matrix, with
   `mset mat i j 1` replaced by `sset` on the sparse rows of Model/CertFast.v.
   Proofs/CertSparseProofs.v: enc_matrix_sparse K = Ok As -> enc_matrix K = Ok (dense L L As). *)

(* add the entry (k, x) at its place in a row sorted by column *)
Fixpoint sins (k : positive) (x : N) (r : srow) : srow :=
  match r with
  | [] => [(k, x)]
  | (k', v') :: t =>
      match Pos.compare k k' with
      | Gt => (k', v') :: sins k x t
      | _ => (k, x) :: r
      end
  end.

(* make column j of the row denote 1 (whatever it denoted before) *)
Definition sset1 (j : N) (r : srow) : srow :=
  let c := sval (ckey j) r in
  if c =? 1 then r else sins (ckey j) (N.lxor c 1) r.

(* matrix.set(i, j, 1) on an M x L sparse matrix; out of range panics like the dense one *)
Definition sset (M L : N) (m : smat) (i j : N) : outcome smat :=
  if (i <? M) && (j <? L) then Ok (set_row m i (sset1 j (get_row m i))) else Panic PIndex.

Open Scope outcome_scope.

Definition set_ldpc_s (M L S B W P : N) (mat : smat) : outcome smat :=
  mat <- ofor (N.to_nat B) 0 (fun i mat =>
           a <- (d <- div_ok i S ;; Ok (1 + d)) ;;
           b <- rem_ok i S ;;
           mat <- sset M L mat b i ;;
           b <- rem_ok (b + a) S ;;
           mat <- sset M L mat b i ;;
           b <- rem_ok (b + a) S ;;
           sset M L mat b i) mat ;;
  mat <- ofor (N.to_nat S) 0 (fun i mat => sset M L mat i (i + B)) mat ;;
  ofor (N.to_nat S) 0 (fun i mat =>
           c1 <- rem_ok i P ;;
           mat <- sset M L mat i (c1 + W) ;;
           c2 <- rem_ok (i + 1) P ;;
           sset M L mat i (c2 + W)) mat.

Definition set_enc_s (m : mode) (M L : N) (first W P P1 J : N) (isis : list N) (mat : smat)
  : outcome smat :=
  r <- ofold (fun isi (st : N * smat) =>
         let '(row, mat) := st in
         t <- intermediate_tuple_gen true m isi W J P1 ;;
         idx <- enc_indices m t W P P1 ;;
         mat <- ofold (fun j mat => sset M L mat (row + first) j) idx mat ;;
         Ok (row + 1, mat)) isis (0, mat) ;;
  Ok (snd r).

(* rows i, i+1, .. replaced *)
Fixpoint put_rows (m : smat) (i : N) (rows : list srow) : smat :=
  match rows with
  | [] => m
  | r :: t => put_rows (set_row m i r) (N.succ i) t
  end.

(* 0, 1, .., n-1 without converting each element from nat *)
Fixpoint range_from (n : nat) (i : N) : list N :=
  match n with O => [] | S k => i :: range_from k (N.succ i) end.

Definition enc_matrix_sparse (K : N) : outcome smat :=
  sp <- sys_params K ;;
  let Kp := spK sp in let J := spJ sp in let Sn := spS sp in let H := spH sp in
  let W := spW sp in let P := spP sp in let P1 := spP1 sp in let L := spL sp in
  let B := W - Sn in
  let M := Sn + H + Kp in
  assert_ok (L <=? M) ;;;
  mat <- set_ldpc_s M L Sn B W P (PositiveMap.empty srow) ;;
  W' <- num_lt_symbols Kp ;;
  P' <- num_pi_symbols Kp ;;
  mat <- set_enc_s Release M L (Sn + H) W' P' P1 J (range_from (N.to_nat Kp) 0) mat ;;
  hd <- generate_hdpc_rows Release Kp Sn H ;;
  assert_ok ((N.of_nat (length hd) =? H) && forallb (fun r => N.of_nat (length r) =? L) hd) ;;;
  Ok (put_rows mat Sn (map srow_of_dense hd)).

Close Scope outcome_scope.

(* ---- the certificate check ---- *)

(* fused_addassign_mul_scalar debug-asserts scalar != 0 and scalar != 1 *)
Definition fma_scalar_ok (o : fop) : bool :=
  match o with
  | FFMA _ _ c => negb (c =? 0) && negb (c =? 1)
  | _ => true
  end.

(* the plan is a certificate for the sparsely built matrix (the check the driver runs) *)
Definition cert_ok (K : N) (v : list N) : bool :=
  match decode_plan v, sys_params K, enc_matrix_sparse K with
  | Some (ops, ord), Ok sp, Ok A =>
      let L := spL sp in
      (K <=? spK sp) &&
      (spS sp + spH sp + spK sp =? L) &&
      check_cert_fast L L A ops ord &&
      nodup_fast ord &&
      forallb fma_scalar_ok ops
  | _, _, _ => false
  end.

(* the same against the dense matrix of Model/CMatrix.v itself (reference; slow above K ~ 3000) *)
Definition cert_ok_dense (K : N) (v : list N) : bool :=
  match decode_plan v, sys_params K, enc_matrix K with
  | Some (ops, ord), Ok sp, Ok A =>
      let L := spL sp in
      (K <=? spK sp) &&
      (spS sp + spH sp + spK sp =? L) &&
      (N.of_nat (length A) =? L) &&
      wf_matb (N.to_nat L) A &&
      check_cert_fast L L (smat_of_dense A) ops ord &&
      nodup_fast ord &&
      forallb fma_scalar_ok ops
  | _, _, _ => false
  end.
