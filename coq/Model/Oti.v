(* Model of ObjectTransmissionInformation::new (src/base.rs) and util::int_div_ceil (src/util.rs).
   int_div_ceil returns u32: its result is NARROWED with `as u32` (pinned code).  oti_new_gen is
   parameterised by the ceiling division so that the same body gives the pinned constructor and the
   constructor after the fix (inner computation kept in u64, compared with 56403 as u64).
   `num / denom + 1` is u64 arithmetic: for denom >= 2 it is at most 2^63 + 1, for denom = 1 the
   remainder is 0 and the branch is not taken, so it cannot overflow (no mode dependence; the mode
   parameter is kept for uniformity with the other constructors).
   int_div_ceil is only called with denom <> 0 here (guarded by the `if`). *)
From Coq Require Import NArith List Bool.
From RQ Require Import Base.Outcome Base.Ints Gen.Consts Model.Wire.
Open Scope N_scope.
Open Scope outcome_scope.

(* the ceiling division kept in u64 (no narrowing) *)
Definition ceil_div64 (num den : N) : N :=
  if num mod den =? 0 then num / den else num / den + 1.

(* util::int_div_ceil(num: u64, denom: u64) -> u32 as pinned *)
Definition int_div_ceil_pinned (num den : N) : N :=
  u32 (if num mod den =? 0 then num / den else num / den + 1).

Definition oti_new_gen (idc : N -> N -> N) (m : mode) (F T Z Nsub Al : N) : outcome oti :=
  (* assert!(transfer_length <= 942574504275) *)
  assert_ok (F <=? MAX_TRANSFER_LENGTH) ;;;
  (* assert_eq!(symbol_size % alignment as u16, 0) *)
  r <- rem_ok T Al ;;
  assert_ok (r =? 0) ;;;
  (if negb (T =? 0) && negb (Z =? 0) then
     let symbols_required := idc (idc F T) Z in
     assert_ok (symbols_required <=? MAX_SOURCE_SYMBOLS_PER_BLOCK)
   else Ok tt) ;;;
  Ok (F, T, Z, Nsub, Al).

Definition oti_new_pinned : mode -> N -> N -> N -> N -> N -> outcome oti :=
  oti_new_gen int_div_ceil_pinned.
Definition oti_new_fixed : mode -> N -> N -> N -> N -> N -> outcome oti :=
  oti_new_gen ceil_div64.

(* the constructor as the code is now (after fix 51a20da in /repo; oti_new_pinned is the pre-fix code) *)
Definition oti_new : mode -> N -> N -> N -> N -> N -> outcome oti := oti_new_fixed.
