(* Model of src/decoder.rs: SourceBlockDecoder (state machine, the three decode cases, the no-HDPC
   fast path with fall-back) and Decoder (per-block memo, concatenation, truncation).
   The solver is the reference solver of Spec.Linear on the model's constraint matrix: whether the
   real five-phase solver answers Some/None on the same system, and with the same symbols, is what
   the correspondence check compares at every prefix (and what the certificate theorems justify). *)
From Coq Require Import NArith List Bool.
From RQ Require Import Base.Outcome Base.Ints Base.ListX Spec.Linear Spec.Layout
  Model.Octet Model.FieldFast Model.SysConst Model.Tuple Model.CMatrix Model.Layout Model.Slab
  Model.Encoder.
Import ListNotations.
Open Scope N_scope.
Open Scope outcome_scope.

Record sb_decoder := mkSBD {
  sbd_id : N;
  sbd_cfg : cfg;                               (* symbol_size, num_sub_blocks, symbol_alignment *)
  sbd_K : N;                                   (* source_block_symbols *)
  sbd_src : list (option (list N));            (* source_symbols *)
  sbd_rep : list (N * list N);                 (* repair_packets (esi, data) in arrival order *)
  sbd_nsrc : N;                                (* received_source_symbols *)
  sbd_esis : list N;                           (* received_esi (a set) *)
  sbd_decoded : bool
}.

(* SourceBlockDecoder::new(source_block_id, config, block_length) *)
Definition sbd_new (id : N) (c : cfg) (block_length : N) : outcome sb_decoder :=
  k <- int_div_ceil block_length (cT c) ;;
  Ok (mkSBD id c k (repeat None (N.to_nat k)) [] 0 [] false).

Definition mem_N (x : N) (l : list N) : bool := existsb (N.eqb x) l.

(* the packet loop of decode(): assert on the block number, drop known ESIs, file the rest *)
Definition sbd_add (m : mode) (d : sb_decoder) (pkt : (N * N) * list N) : outcome sb_decoder :=
  let '((sbn, esi), payload) := pkt in
  assert_ok (sbd_id d =? sbn) ;;;
  if mem_N esi (sbd_esis d) then Ok d
  else if sbd_K d <=? esi then
    Ok (mkSBD (sbd_id d) (sbd_cfg d) (sbd_K d) (sbd_src d) (sbd_rep d ++ [(esi, payload)])
              (sbd_nsrc d) (esi :: sbd_esis d) (sbd_decoded d))
  else
    src' <- list_put (sbd_src d) (N.to_nat esi) (Some payload) ;;
    n' <- add_w m 32 (sbd_nsrc d) 1 ;;
    Ok (mkSBD (sbd_id d) (sbd_cfg d) (sbd_K d) src' (sbd_rep d) n' (esi :: sbd_esis d) (sbd_decoded d)).

Definition present_sources (d : sb_decoder) : list (N * list N) :=
  flat_map (fun ix => match snd ix with Some s => [(fst ix, s)] | None => [] end)
           (enumerate_from 0 (sbd_src d)).

(* rebuild_source_symbol_into: Enc over the intermediate symbols with the tuple of ISI i *)
Definition rebuild_source_symbol (m : mode) (sp : sysparams) (C : list (list N)) (i : N)
  : outcome (list N) :=
  t <- intermediate_tuple_gen true m i (spW sp) (spJ sp) (spP1 sp) ;;
  idx <- enc_indices m t (spW sp) (spP sp) (spP1 sp) ;;
  match idx with
  | [] => Panic PIndex
  | i0 :: rest =>
      first <- nth_ok C (N.to_nat i0) ;;
      ofold (fun j acc => s <- nth_ok C (N.to_nat j) ;; Ok (bytes_add acc s)) rest first
  end.

(* the tail of try_pi_decode / try_pi_decode_no_hdpc: received symbols are unpacked as they are,
   missing ones are rebuilt from the intermediate symbols *)
Definition sbd_finish (m : mode) (d : sb_decoder) (sp : sysparams) (C : list (list N))
  : outcome (list N) :=
  let c := sbd_cfg d in
  ofold (fun ix result =>
           match snd ix with
           | Some s => unpack_sub_blocks c (sbd_K d) result s (fst ix)
           | None => s <- rebuild_source_symbol m sp C (fst ix) ;;
                     unpack_sub_blocks c (sbd_K d) result s (fst ix)
           end)
        (enumerate_from 0 (sbd_src d))
        (repeat 0 (N.to_nat (cT c * sbd_K d))).

(* copy_from_slice of a payload into a T-byte slab row: lengths must agree *)
Definition check_len (T : nat) (s : list N) : outcome (list N) :=
  if Nat.eqb (length s) T then Ok s else Panic PAssert.

(* the decision part of decode(), after the packets have been filed *)
Definition sbd_try (m : mode) (d : sb_decoder) : outcome (option (list N) * sb_decoder) :=
  let c := sbd_cfg d in
  let K := sbd_K d in
  let T := N.to_nat (cT c) in
  Kp <- extended_source_block_symbols K ;;
  let set_decoded (b : bool) :=
    mkSBD (sbd_id d) c K (sbd_src d) (sbd_rep d) (sbd_nsrc d) (sbd_esis d) b in
  (* Case 1 *)
  if lenN (sbd_esis d) <? K then Ok (None, d)
  (* Case 2 *)
  else if sbd_nsrc d =? K then
    syms <- omapM (fun o => match o with Some s => Ok s | None => Panic PUnwrap end) (sbd_src d) ;;
    r <- block_from_all_source c K syms ;;
    Ok (Some r, set_decoded true)
  else
    (* Case 3 *)
    sp <- sys_params K ;;
    let npad := Kp - K in
    let isis := map fst (present_sources d) ++ map (fun i => K + i) (rangeN (N.to_nat npad))
                ++ map (fun r => fst r + npad) (sbd_rep d) in
    srcs <- omapM (fun x => check_len T (snd x)) (present_sources d) ;;
    reps <- omapM (fun x => check_len T (snd x)) (sbd_rep d) ;;
    let body := srcs ++ repeat (repeat 0 T) (N.to_nat npad) ++ reps in
    let L := spL sp in
    (* Case 3a: without HDPC rows when S + |isis| >= L *)
    r3a <- (if L <=? spS sp + lenN isis then
              A <- generate_constraint_matrix_no_hdpc m K isis ;;
              let D := repeat (repeat 0 T) (N.to_nat (spS sp)) ++ body in
              match gauss_solve fmul finv T (N.to_nat L) A D with
              | Some C => r <- sbd_finish m d sp C ;; Ok (Some r)
              | None => Ok None
              end
            else Ok None) ;;
    match r3a with
    | Some r => Ok (Some r, set_decoded true)
    | None =>
        (* Case 3b: standard decode *)
        '(bin, hdpc) <- generate_constraint_matrix m K isis ;;
        let A := full_matrix (spS sp) (spH sp) bin hdpc in
        let D := repeat (repeat 0 T) (N.to_nat (spS sp + spH sp)) ++ body in
        match gauss_solve fmul finv T (N.to_nat L) A D with
        | Some C => r <- sbd_finish m d sp C ;; Ok (Some r, set_decoded true)
        | None => Ok (None, set_decoded false)
        end
    end.

(* SourceBlockDecoder::decode(packets) *)
Definition sbd_decode (m : mode) (d : sb_decoder) (pkts : list ((N * N) * list N))
  : outcome (option (list N) * sb_decoder) :=
  d' <- ofold (fun p d => sbd_add m d p) pkts d ;;
  sbd_try m d'.

(* ---- Decoder ---- *)
Record decoder := mkDec {
  dec_cfg : cfg;
  dec_sbd : list sb_decoder;
  dec_blocks : list (option (list N))
}.

Definition dec_new (c : cfg) : outcome decoder :=
  kt <- int_div_ceil (cF c) (cT c) ;;
  ' (kl, ks, zl, zs) <- partition kt (cZ c) ;;
  l1 <- omapM (fun i => sbd_new (u8 i) c (kl * cT c)) (rangeN (N.to_nat zl)) ;;
  l2 <- omapM (fun i => sbd_new (u8 (zl + i)) c (ks * cT c)) (rangeN (N.to_nat zs)) ;;
  Ok (mkDec c (l1 ++ l2) (repeat None (N.to_nat (zl + zs)))).

Definition dec_result (d : decoder) : option (list N) :=
  if forallb (fun b => match b with Some _ => true | None => false end) (dec_blocks d)
  then Some (reassemble (dec_cfg d)
               (flat_map (fun b => match b with Some x => [x] | None => [] end) (dec_blocks d)))
  else None.

(* add_new_packet *)
Definition dec_add (m : mode) (d : decoder) (pkt : (N * N) * list N) : outcome decoder :=
  let bn := N.to_nat (fst (fst pkt)) in
  blk <- nth_ok (dec_blocks d) bn ;;
  match blk with
  | Some _ => Ok d
  | None =>
      sd <- nth_ok (dec_sbd d) bn ;;
      '(r, sd') <- sbd_decode m sd [pkt] ;;
      sbds <- list_put (dec_sbd d) bn sd' ;;
      blks <- list_put (dec_blocks d) bn r ;;
      Ok (mkDec (dec_cfg d) sbds blks)
  end.

(* decode(packet) = add_new_packet ; get_result *)
Definition dec_decode (m : mode) (d : decoder) (pkt : (N * N) * list N)
  : outcome (option (list N) * decoder) :=
  d' <- dec_add m d pkt ;; Ok (dec_result d', d').
