(* Model of src/rng.rs (`rand`), src/base.rs (`deg`, `intermediate_tuple`) and
   src/constraint_matrix.rs (`enc_indices`), statement by statement, all integers u32 unless noted.

   `rand_gen wrapping`:  wrapping = false is the pinned code, `(y + i) % 256` with `y + i` in u32
   (panics with overflow checks when y + i >= 2^32); wrapping = true is the fixed code,
   `y.wrapping_add(i) % 256`. *)
From Coq Require Import NArith List Bool.
From RQ Require Import Base.Outcome Base.Ints Gen.Consts Gen.RandTables.
Import ListNotations.
Open Scope N_scope.
Open Scope outcome_scope.

Notation tuple6 := (N * N * N * N * N * N)%type.

(* pub fn rand<TI: Into<u32>>(y: u32, i: TI, m: u32) -> u32 *)
Definition rand_gen (wrapping : bool) (m : mode) (y i mm : N) : outcome N :=
  if 0 <? mm then                                                   (* assert!(m > 0) *)
    s0 <- (if wrapping then Ok (u32 (y + i)) else add_w m 32 y i) ;;  (* y + i *)
    let x0 := s0 mod 256 in
    s1 <- add_w m 32 (N.shiftr y 8) i ;;
    let x1 := s1 mod 256 in
    s2 <- add_w m 32 (N.shiftr y 16) i ;;
    let x2 := s2 mod 256 in
    s3 <- add_w m 32 (N.shiftr y 24) i ;;
    let x3 := s3 mod 256 in
    v0 <- nth_ok V0 (N.to_nat x0) ;;
    v1 <- nth_ok V1 (N.to_nat x1) ;;
    v2 <- nth_ok V2 (N.to_nat x2) ;;
    v3 <- nth_ok V3 (N.to_nat x3) ;;
    Ok (N.lxor (N.lxor (N.lxor v0 v1) v2) v3 mod mm)
  else Panic PAssert.

(* for d in 1..f.len() { if v < f[d] { return min(d as u32, lt_symbols - 2); } } unreachable!() *)
Fixpoint deg_loop (m : mode) (v W : N) (n : nat) (d : N) : outcome N :=
  match n with
  | O => Panic PUnreachable
  | S n' =>
      fd <- nth_ok DEG_F (N.to_nat d) ;;
      if v <? fd then (w2 <- sub_w m 32 W 2 ;; Ok (N.min d w2))
      else deg_loop m v W n' (d + 1)
  end.

(* pub fn deg(v: u32, lt_symbols: u32) -> u32 *)
Definition deg (m : mode) (v W : N) : outcome N :=
  if v <? DEG_V_LIMIT then deg_loop m v W (length DEG_F - 1) 1 else Panic PAssert.

(* pub fn intermediate_tuple(internal_symbol_id, lt_symbols, systematic_index, p1) *)
Definition intermediate_tuple_gen (wrapping : bool) (m : mode) (X W J P1 : N) : outcome tuple6 :=
  t <- mul_w m 32 J TUPLE_A_MUL ;;
  A0 <- add_w m 32 TUPLE_A_BASE t ;;                         (* let mut A = 53591 + J * 997 *)
  A <- (if A0 mod 2 =? 0 then add_w m 32 A0 1 else Ok A0) ;;  (* if A.is_multiple_of(2) { A += 1 } *)
  j1 <- add_w m 32 J 1 ;;
  B <- mul_w m 32 TUPLE_B_MUL j1 ;;                          (* let B = 10267 * (J + 1) *)
  xa <- mul_w m 64 X A ;;                                    (* u64 *)
  s <- add_w m 64 B xa ;;                                    (* u64 *)
  let y := u32 (s mod TUPLE_Y_MOD) in                        (* (.. % 4294967296) as u32 *)
  v <- rand_gen wrapping m y 0 TUPLE_V_RANGE ;;
  d <- deg m v W ;;
  w1 <- sub_w m 32 W 1 ;;
  ra <- rand_gen wrapping m y 1 w1 ;;
  a <- add_w m 32 1 ra ;;
  b <- rand_gen wrapping m y 2 W ;;
  d1 <- (if d <? 4 then r3 <- rand_gen wrapping m X 3 2 ;; add_w m 32 2 r3 else Ok 2) ;;
  p11 <- sub_w m 32 P1 1 ;;
  ra1 <- rand_gen wrapping m X 4 p11 ;;
  a1 <- add_w m 32 1 ra1 ;;
  b1 <- rand_gen wrapping m X 5 P1 ;;
  Ok (d, a, b, d1, a1, b1).

(* ---- enc_indices: the indices passed to `f`, in call order ---- *)

(* for _ in 1..d { b = (b + a) % w; f(b) }  -- n = d - 1 iterations *)
Fixpoint lt_loop (m : mode) (n : nat) (a W b : N) : outcome (list N) :=
  match n with
  | O => Ok []
  | S n' =>
      s <- add_w m 32 b a ;;
      b' <- rem_ok s W ;;
      rest <- lt_loop m n' a W b' ;;
      Ok (b' :: rest)
  end.

(* while b1 >= p { b1 = (b1 + a1) % p1 }  -- data dependent: explicit fuel *)
Fixpoint pi_skip (m : mode) (fuel : nat) (a1 P P1 b1 : N) : outcome N :=
  match fuel with
  | O => Panic PFuel
  | S f =>
      if P <=? b1 then
        s <- add_w m 32 b1 a1 ;;
        b1' <- rem_ok s P1 ;;
        pi_skip m f a1 P P1 b1'
      else Ok b1
  end.

(* for _ in 1..d1 { b1 = (b1 + a1) % p1; while b1 >= p {..}; f(w + b1) }  -- n = d1 - 1 *)
Fixpoint pi_loop (m : mode) (fuel n : nat) (a1 W P P1 b1 : N) : outcome (list N) :=
  match n with
  | O => Ok []
  | S n' =>
      s <- add_w m 32 b1 a1 ;;
      b1' <- rem_ok s P1 ;;
      b1'' <- pi_skip m fuel a1 P P1 b1' ;;
      i <- add_w m 32 W b1'' ;;
      rest <- pi_loop m fuel n' a1 W P P1 b1'' ;;
      Ok (i :: rest)
  end.

(* pub fn enc_indices<F: FnMut(usize)>(source_tuple, lt_symbols, pi_symbols, p1, f).
   Each `while` gets fuel N.to_nat P1: b1 walks the residues b1 + k*a1 mod P1, which for P1 prime
   and 1 <= a1 < P1 reach 0 < P within P1 - 1 steps (Proofs/EncIndicesProofs.v). *)
Definition enc_indices (m : mode) (t : tuple6) (W P P1 : N) : outcome (list N) :=
  let '(d, a, b, d1, a1, b1) := t in
  assert_ok (0 <? d) ;;;
  assert_ok ((1 <=? a) && (a <? W)) ;;;
  assert_ok (b <? W) ;;;
  assert_ok ((d1 =? 2) || (d1 =? 3)) ;;;
  assert_ok ((1 <=? a1) && (a1 <? P1)) ;;;
  assert_ok (b1 <? P1) ;;;
  let fuel := N.to_nat P1 in
  lt <- lt_loop m (N.to_nat (d - 1)) a W b ;;
  b1' <- pi_skip m fuel a1 P P1 b1 ;;
  i0 <- add_w m 32 W b1' ;;
  pis <- pi_loop m fuel (N.to_nat (d1 - 1)) a1 W P P1 b1' ;;
  Ok (b :: lt ++ i0 :: pis).
