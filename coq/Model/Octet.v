(* Model of src/octet.rs: table-driven GF(256) arithmetic, transcribed function by function.
   OCT_EXP / OCT_LOG come from Gen (regenerated from the source on every run). *)
From Coq Require Import NArith List Bool.
From RQ Require Import Base.Outcome Base.ListX Gen.OctetTables.
Import ListNotations.
Open Scope N_scope.
Open Scope outcome_scope.

Definition exp_at (i : N) : outcome N := nth_ok OCT_EXP (N.to_nat i).
Definition log_at (a : N) : outcome N := nth_ok OCT_LOG (N.to_nat a).

(* value-level (total) versions of the table arithmetic; Proofs/OctetProofs.v shows that the
   outcome-returning functions below return exactly these on octets *)
Definition expN (i : N) : N := nth (N.to_nat i) OCT_EXP 0.
Definition logN (a : N) : N := nth (N.to_nat a) OCT_LOG 0.
Definition mulN (a b : N) : N := if (a =? 0) || (b =? 0) then 0 else expN (logN a + logN b).
Definition divN (a b : N) : N := if a =? 0 then 0 else expN (255 + logN a - logN b).

(* impl Add / Sub / AddAssign: xor *)
Definition oct_add (a b : N) : N := N.lxor a b.

(* impl Mul for &Octet *)
Definition oct_mul (a b : N) : outcome N :=
  if (a =? 0) || (b =? 0) then Ok 0
  else la <- log_at a ;; lb <- log_at b ;; exp_at (la + lb).

(* impl Div for &Octet: assert_ne!(0, rhs) *)
Definition oct_div (a b : N) : outcome N :=
  if b =? 0 then Panic PAssert
  else if a =? 0 then Ok 0
  else la <- log_at a ;; lb <- log_at b ;;
       if 255 + la <? lb then Panic POverflow else exp_at (255 + la - lb).

(* Octet::fma(&mut self, other1, other2) *)
Definition oct_fma (acc a b : N) : outcome N :=
  if negb (a =? 0) && negb (b =? 0) then
    la <- log_at a ;; lb <- log_at b ;; e <- exp_at (la + lb) ;; Ok (N.lxor acc e)
  else Ok acc.

(* Octet::alpha(i): assert!(i < 256) *)
Definition oct_alpha (i : N) : outcome N :=
  if i <? 256 then exp_at i else Panic PAssert.

(* const fn const_mul(x, y) = OCT_EXP[OCT_LOG[x] + OCT_LOG[y]]  (no zero test) *)
Definition const_mul (x y : N) : outcome N :=
  lx <- log_at x ;; ly <- log_at y ;; exp_at (lx + ly).

Definition or0 (x : outcome N) : N := match x with Ok v => v | Panic _ => 0 end.

(* calculate_octet_mul_table: result[i][j] = const_mul(i, j) for 1 <= i, j < 256, else 0 *)
Definition octet_mul_table : list (list N) :=
  map (fun i => map (fun j => if (i =? 0) || (j =? 0) then 0 else or0 (const_mul i j)) (rangeN 256))
      (rangeN 256).

(* calculate_octet_mul_low_table: result[i][j] = result[i][j+16] = const_mul(i, j), 1 <= j < 16 *)
Definition low_entry (i j : N) : N :=
  let jj := j mod 16 in
  if (i =? 0) || (jj =? 0) then 0 else or0 (const_mul i jj).
Definition octet_mul_low_table : list (list N) :=
  map (fun i => map (fun j => low_entry i j) (rangeN 32)) (rangeN 256).

(* calculate_octet_mul_hi_table: result[i][j] = result[i][j+16] = const_mul(i, j << 4) *)
Definition hi_entry (i j : N) : N :=
  let jj := j mod 16 in
  if (i =? 0) || (jj =? 0) then 0 else or0 (const_mul i (N.shiftl jj 4)).
Definition octet_mul_hi_table : list (list N) :=
  map (fun i => map (fun j => hi_entry i j) (rangeN 32)) (rangeN 256).

Definition tbl2 (t : list (list N)) (i j : N) : outcome N :=
  r <- nth_ok t (N.to_nat i) ;; nth_ok r (N.to_nat j).
