(* An execution-efficient certificate checker for large sparse systems over GF(256)
   (vm_compute / extraction).  Rows live in a binary trie keyed by row index; a row is a sparse
   association list (column key, value), kept sorted by column with non-zero values by the
   operations below.  Soundness (Proofs/CertFastProofs.v) does NOT depend on sortedness: a row
   denotes, in column j, the xor of all its entries with key j; sortedness only makes the merge
   linear and the unit-row test complete.
   check_cert_fast = true  implies  Spec.Linear.check_cert fmul on the dense denotation. *)
From Coq Require Import NArith PArith List Bool FMapPositive.
From RQ Require Import Model.FieldFast Spec.Linear.
Import ListNotations.
Open Scope N_scope.

Definition srow := list (positive * N).          (* (N.succ_pos column, value) *)
Definition smat := PositiveMap.t srow.           (* key N.succ_pos row; absent row = zero row *)

Definition ckey (j : N) : positive := N.succ_pos j.

Inductive fop :=
| FAdd (dest src : N)
| FMul (dest : N) (c : N)
| FFMA (dest src : N) (c : N).

(* r1 + r2: merge of two sorted rows, cancelling entries dropped *)
Fixpoint sadd (r1 r2 : srow) {struct r1} : srow :=
  match r1 with
  | [] => r2
  | (k1, v1) :: t1 =>
      (fix aux (r2 : srow) : srow :=
         match r2 with
         | [] => r1
         | (k2, v2) :: t2 =>
             match Pos.compare k1 k2 with
             | Lt => (k1, v1) :: sadd t1 r2
             | Eq => let v := N.lxor v1 v2 in
                     if v =? 0 then sadd t1 t2 else (k1, v) :: sadd t1 t2
             | Gt => (k2, v2) :: aux t2
             end
         end) r2
  end.

(* c * r, zero products dropped *)
Fixpoint sscale (c : N) (r : srow) : srow :=
  match r with
  | [] => []
  | (k, v) :: t => let p := fmul c v in if p =? 0 then sscale c t else (k, p) :: sscale c t
  end.

Definition get_row (m : smat) (i : N) : srow :=
  match PositiveMap.find (N.succ_pos i) m with Some r => r | None => [] end.
Definition set_row (m : smat) (i : N) (r : srow) : smat := PositiveMap.add (N.succ_pos i) r m.

Definition fapply (o : fop) (m : smat) : smat :=
  match o with
  | FAdd d s => set_row m d (sadd (get_row m d) (get_row m s))
  | FMul d c => set_row m d (sscale c (get_row m d))
  | FFMA d s c => set_row m d (sadd (get_row m d) (sscale c (get_row m s)))
  end.

Definition fapply_ops (ops : list fop) (m : smat) : smat := fold_left (fun m o => fapply o m) ops m.

Definition fop_valid (M : N) (o : fop) : bool :=
  match o with
  | FAdd d s => (d <? M) && (s <? M) && negb (d =? s)
  | FMul d c => (d <? M) && (c <? 256) && negb (c =? 0)
  | FFMA d s c => (d <? M) && (s <? M) && negb (d =? s) && (c <? 256)
  end.

Definition srow_wfb (r : srow) : bool := forallb (fun kv => snd kv <? 256) r.
Definition smat_wfb (m : smat) : bool := forallb (fun ir => srow_wfb (snd ir)) (PositiveMap.elements m).

(* row = e_j, literally the one-entry list *)
Definition srow_is_unit (j : N) (r : srow) : bool :=
  match r with
  | [(k, v)] => Pos.eqb k (ckey j) && (v =? 1)
  | _ => false
  end.

Fixpoint check_units (m : smat) (M : N) (j : N) (order : list N) : bool :=
  match order with
  | [] => true
  | i :: t => (i <? M) && srow_is_unit j (get_row m i) && check_units m M (N.succ j) t
  end.

(* A : M x L *)
Definition check_cert_fast (L M : N) (A : smat) (ops : list fop) (order : list N) : bool :=
  smat_wfb A &&
  forallb (fop_valid M) ops &&
  (N.of_nat (length order) =? L) &&
  check_units (fapply_ops ops A) M 0 order.

(* ---- dense denotation (specification side; not meant to be executed on large inputs) ---- *)

Fixpoint sval (k : positive) (r : srow) : N :=
  match r with
  | [] => 0
  | (k', v) :: t => if Pos.eqb k k' then N.lxor v (sval k t) else sval k t
  end.

Definition drow (L : N) (r : srow) : list N :=
  map (fun j => sval (ckey (N.of_nat j)) r) (seq 0 (N.to_nat L)).
Definition dense (L M : N) (m : smat) : list (list N) :=
  map (fun i => drow L (get_row m (N.of_nat i))) (seq 0 (N.to_nat M)).

Definition op_of (o : fop) : symop :=
  match o with
  | FAdd d s => OpAdd (N.to_nat d) (N.to_nat s)
  | FMul d c => OpMul (N.to_nat d) c
  | FFMA d s c => OpFMA (N.to_nat d) (N.to_nat s) c
  end.

(* ---- building the sparse representation ---- *)

Fixpoint srow_of_dense_from (j : N) (r : list N) : srow :=
  match r with
  | [] => []
  | v :: t => if v =? 0 then srow_of_dense_from (N.succ j) t
              else (ckey j, v) :: srow_of_dense_from (N.succ j) t
  end.
Definition srow_of_dense (r : list N) : srow := srow_of_dense_from 0 r.

Fixpoint smat_of_rows_from (i : N) (rows : list srow) (m : smat) : smat :=
  match rows with
  | [] => m
  | r :: t => smat_of_rows_from (N.succ i) t (set_row m i r)
  end.
Definition smat_of_rows (rows : list srow) : smat := smat_of_rows_from 0 rows (PositiveMap.empty srow).
Definition smat_of_dense (A : list (list N)) : smat := smat_of_rows (map srow_of_dense A).

(* sparse rows given with plain column numbers *)
Definition srow_of_list (r : list (N * N)) : srow := map (fun jv => (ckey (fst jv), snd jv)) r.

(* duplicate-freeness of a read-out order (for Linear.cert_sound_exists), in O(n log n) *)
Fixpoint nodup_from (seen : PositiveMap.t unit) (l : list N) : bool :=
  match l with
  | [] => true
  | i :: t =>
      match PositiveMap.find (N.succ_pos i) seen with
      | Some _ => false
      | None => nodup_from (PositiveMap.add (N.succ_pos i) tt seen) t
      end
  end.
Definition nodup_fast (l : list N) : bool := nodup_from (PositiveMap.empty unit) l.
