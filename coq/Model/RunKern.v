(* Case decoding for the kernel group (C11 / C12) of the correspondence check; see harness/src/kern.rs. *)
From Coq Require Import NArith List Bool.
From RQ Require Import Base.Outcome Base.Ints Spec.Bits Model.Kernels.
Import ListNotations.
Open Scope N_scope.

Definition kargn (l : list N) (i : nat) : N := nth i l 0.
Definition kenc (x : outcome (list N)) : list N :=
  match x with Ok l => 1 :: l ++ [1] | Panic _ => [0; 0] end.

(* the host of this sandbox: AVX-512F/BW, AVX2, BMI1, SSSE3 *)
Definition host_cpu : cpu := [AVX512F; AVX512BW; AVX2; BMI1; SSSE3].

(* [isa, align, len, dest(len), src(len)] *)
Definition run_k_add (a : list N) : list N :=
  let len := N.to_nat (kargn a 2) in
  let d := firstn len (skipn 3 a) in
  let s := skipn (3 + len) a in
  kenc (match kargn a 0 with
        | 0 => add_assign_avx512 d s
        | 1 => add_assign_avx2 d s
        | 2 => add_assign_ssse3 d s
        | 3 => add_assign_fallback d s
        | _ => Model.Kernels.add_assign host_cpu d s
        end).

(* [isa, align, c, len, dest(len)] *)
Definition run_k_mul (a : list N) : list N :=
  let c := kargn a 2 in
  let d := firstn (N.to_nat (kargn a 3)) (skipn 4 a) in
  kenc (match kargn a 0 with
        | 0 => mulassign_scalar_avx512 d c
        | 1 => mulassign_scalar_avx2 d c
        | 2 => mulassign_scalar_ssse3 d c
        | 3 => mulassign_scalar_fallback d c
        | _ => Model.Kernels.mulassign_scalar host_cpu d c
        end).

(* [isa, align, c, len, dest(len), src(len)] *)
Definition run_k_fma (m : mode) (a : list N) : list N :=
  let c := kargn a 2 in
  let len := N.to_nat (kargn a 3) in
  let d := firstn len (skipn 4 a) in
  let s := skipn (4 + len) a in
  kenc (match kargn a 0 with
        | 0 => fused_addassign_mul_scalar_avx512 d s c
        | 1 => fused_addassign_mul_scalar_avx2 d s c
        | 2 => fused_addassign_mul_scalar_ssse3 d s c
        | 3 => fused_addassign_mul_scalar_fallback d s c
        | _ => fused_addassign_mul_scalar m host_cpu d s c
        end).

(* [isa, align, c, len, nwords, words..., dest(len)]; BinaryOctetVec::new asserts the word count;
   the hook wrapper asserts equal lengths and returns early on an empty buffer *)
Definition run_k_fmabin (m : mode) (a : list N) : list N :=
  let c := kargn a 2 in
  let len := kargn a 3 in
  let nw := N.to_nat (kargn a 4) in
  let words := firstn nw (skipn 5 a) in
  let d := firstn (N.to_nat len) (skipn (5 + nw) a) in
  let bv : bvec := (words, len) in
  if negb (N.of_nat nw =? ceil_div len 64) then [0; 0]
  else if len =? 0 then [1; 1]
  else
  kenc (match kargn a 0 with
        | 0 => fused_addassign_mul_scalar_binary_avx512 d bv c
        | 1 => fused_addassign_mul_scalar_binary_avx2 d bv c
        | 2 | 3 => fused_addassign_mul_scalar_binary_generic m host_cpu d bv c
        | _ => fused_addassign_mul_scalar_binary m host_cpu d bv c
        end).

(* [len, nwords, words...] *)
Definition run_k_unpack (a : list N) : list N :=
  let nw := N.to_nat (kargn a 1) in
  if negb (N.of_nat nw =? ceil_div (kargn a 0) 64) then [0; 0]
  else match to_octet_vec (firstn nw (skipn 2 a), kargn a 0) with
       | Ok l => 1 :: l | Panic _ => [0; 0] end.

(* Spec: unpacked bits *)
Definition run_spec_bits (a : list N) : list N :=
  let nw := N.to_nat (kargn a 1) in
  1 :: to_bits (firstn nw (skipn 2 a), kargn a 0).

Definition run_kern (f : N) (a : list N) : list N :=
  match f with
  | 400 => run_k_add a
  | 401 => run_k_mul a
  | 402 => run_k_fma Release a
  | 403 => run_k_fmabin Release a
  | 404 => run_k_unpack a
  | 412 => run_k_fma Checked a
  | 413 => run_k_fmabin Checked a
  | 450 => run_spec_bits a
  | _ => [0; 99]
  end.
