(* Model of src/symbol_slab.rs, src/operation_vector.rs: contiguous symbol storage with an optional
   logical->physical reorder mapping, and replay of SymbolOps on it.  The byte kernels of
   src/octets.rs are modelled here by their element-wise meaning (C11 proves every kernel equals it). *)
From Coq Require Import NArith List Bool.
From RQ Require Import Base.Outcome Base.Ints Model.Octet.
Import ListNotations.
Open Scope N_scope.
Open Scope outcome_scope.

Record slab := mkSlab {
  sl_data : list (list N);        (* physical symbols, each sl_ss bytes *)
  sl_ss : nat;                    (* symbol_size *)
  sl_map : option (list N)        (* mapping: logical index -> physical index *)
}.

Definition slab_count (s : slab) : nat := length (sl_data s).

(* SymbolSlab::with_zeros(count, symbol_size) *)
Definition slab_zeros (count ss : nat) : slab :=
  mkSlab (repeat (repeat 0 ss) count) ss None.

(* physical_index: self.mapping.as_ref().map_or(i, |m| m[i]) *)
Definition phys (s : slab) (i : N) : outcome N :=
  match sl_map s with
  | None => Ok i
  | Some m => nth_ok m (N.to_nat i)
  end.

(* get / get_mut: &self.data[start..start + symbol_size] *)
Definition slab_get (s : slab) (i : N) : outcome (list N) :=
  p <- phys s i ;; nth_ok (sl_data s) (N.to_nat p).

Fixpoint list_set {A} (l : list A) (i : nat) (v : A) : list A :=
  match l, i with
  | [], _ => []
  | _ :: t, O => v :: t
  | x :: t, S j => x :: list_set t j v
  end.

Definition slab_put (s : slab) (p : N) (v : list N) : slab :=
  mkSlab (list_set (sl_data s) (N.to_nat p) v) (sl_ss s) (sl_map s).

(* copy_from_slice into get_mut(i): lengths must agree *)
Definition slab_set (s : slab) (i : N) (v : list N) : outcome slab :=
  p <- phys s i ;;
  old <- nth_ok (sl_data s) (N.to_nat p) ;;
  if Nat.eqb (length old) (length v) then Ok (slab_put s p v) else Panic PAssert.

(* get_pair_mut: three asserts on the physical indices *)
Definition slab_pair (s : slab) (dest src : N) : outcome (N * list N * list N) :=
  pd <- phys s dest ;;
  ps <- phys s src ;;
  if pd =? ps then Panic PAssert
  else if negb (Nat.ltb (N.to_nat pd) (slab_count s)) then Panic PAssert
  else if negb (Nat.ltb (N.to_nat ps) (slab_count s)) then Panic PAssert
  else d <- nth_ok (sl_data s) (N.to_nat pd) ;;
       v <- nth_ok (sl_data s) (N.to_nat ps) ;;
       Ok (pd, d, v).

Fixpoint map2 {A B C} (f : A -> B -> C) (l1 : list A) (l2 : list B) : list C :=
  match l1, l2 with
  | a :: t1, b :: t2 => f a b :: map2 f t1 t2
  | _, _ => []
  end.

(* element-wise meaning of the byte kernels *)
Definition bytes_add (d s : list N) : list N := map2 N.lxor d s.
Definition bytes_mul (c : N) (d : list N) : list N := map (mulN c) d.
Definition bytes_fma (c : N) (d s : list N) : list N := map2 (fun x y => N.lxor x (mulN c y)) d s.

Definition slab_add_assign (s : slab) (dest src : N) : outcome slab :=
  '(pd, d, v) <- slab_pair s dest src ;;
  Ok (slab_put s pd (bytes_add d v)).

Definition slab_mulassign (s : slab) (dest c : N) : outcome slab :=
  p <- phys s dest ;;
  d <- nth_ok (sl_data s) (N.to_nat p) ;;
  Ok (slab_put s p (bytes_mul c d)).

(* fused_addassign_mul_scalar has debug_assert_ne!(scalar, one) and debug_assert_ne!(scalar, zero):
   with debug assertions (mode Checked) those scalars panic *)
Definition slab_fma (m : mode) (s : slab) (dest src c : N) : outcome slab :=
  '(pd, d, v) <- slab_pair s dest src ;;
  match m with
  | Checked => if (c =? 0) || (c =? 1) then Panic PAssert else Ok (slab_put s pd (bytes_fma c d v))
  | Release => Ok (slab_put s pd (bytes_fma c d v))
  end.

Definition slab_set_reorder (s : slab) (order : list N) : slab :=
  mkSlab (sl_data s) (sl_ss s) (Some order).

Inductive symbol_op :=
| SAdd (dest src : N)
| SMul (dest : N) (scalar : N)
| SFMA (dest src : N) (scalar : N)
| SReorder (order : list N).

(* perform_op *)
Definition perform_op (m : mode) (o : symbol_op) (s : slab) : outcome slab :=
  match o with
  | SAdd d r => slab_add_assign s d r
  | SMul d c => slab_mulassign s d c
  | SFMA d r c => slab_fma m s d r c
  | SReorder ord => Ok (slab_set_reorder s ord)
  end.

Fixpoint replay (m : mode) (ops : list symbol_op) (s : slab) : outcome slab :=
  match ops with
  | [] => Ok s
  | o :: t => s' <- perform_op m o s ;; replay m t s'
  end.

(* logical read-out of all symbols 0 .. n-1 *)
Fixpoint slab_read (s : slab) (n : nat) (from : N) : outcome (list (list N)) :=
  match n with
  | O => Ok []
  | S k => x <- slab_get s from ;; r <- slab_read s k (from + 1) ;; Ok (x :: r)
  end.
