(* Model of the wire formats of src/base.rs: PayloadId::{new,serialize,deserialize},
   EncodingPacket::{serialize,deserialize} and ObjectTransmissionInformation::{serialize,deserialize}
   plus the accessors.  Same shifts, masks and `as u8` truncations as the Rust code.
   Widening casts (`as u32`, `as u64`, `u8 as u16`) are the identity on values.
   The `+` and `<<` of the deserialisers act on disjoint byte lanes and cannot overflow their type
   (range lemmas pid_deser_range / oti_deser_range in Proofs/WireProofs.v), so plain N ops are used. *)
From Coq Require Import NArith List Bool.
From RQ Require Import Base.Outcome Base.Ints Gen.Consts.
Import ListNotations.
Open Scope N_scope.
Open Scope outcome_scope.

(* ---- PayloadId { source_block_number: u8, encoding_symbol_id: u32 } as (sbn, esi) ---- *)

Definition payload_id : Type := (N * N)%type.

(* PayloadId::new: assert!(encoding_symbol_id < 16777216) *)
Definition pid_new (sbn esi : N) : outcome (N * N) :=
  if esi <? ESI_LIMIT then Ok (sbn, esi) else Panic PAssert.

(* PayloadId::serialize *)
Definition pid_ser (p : N * N) : list N :=
  let '(sbn, esi) := p in
  [ sbn;
    u8 (N.shiftr esi 16);
    u8 (N.land (N.shiftr esi 8) 255);
    u8 (N.land esi 255) ].

(* PayloadId::deserialize(data: &[u8; 4]); the static length becomes a dynamic check *)
Definition pid_deser (b : list N) : outcome (N * N) :=
  match b with
  | [d0; d1; d2; d3] => Ok (d0, N.shiftl d1 16 + N.shiftl d2 8 + d3)
  | _ => Panic PIndex
  end.

Definition pid_source_block_number (p : N * N) : N := fst p.
Definition pid_encoding_symbol_id (p : N * N) : N := snd p.

(* ---- EncodingPacket { payload_id, data: Vec<u8> } as (id, data) ---- *)

Definition packet : Type := ((N * N) * list N)%type.

(* &data[n..] panics when n > data.len() *)
Definition slice_from {A} (l : list A) (n : nat) : outcome (list A) :=
  if Nat.leb n (length l) then Ok (skipn n l) else Panic PIndex.

(* EncodingPacket::serialize *)
Definition pkt_ser (p : (N * N) * list N) : list N :=
  let '(id, data) := p in pid_ser id ++ data.

(* EncodingPacket::deserialize: data[0], data[1], data[2], data[3], then &data[4..] *)
Definition pkt_deser (b : list N) : outcome ((N * N) * list N) :=
  d0 <- nth_ok b 0 ;;
  d1 <- nth_ok b 1 ;;
  d2 <- nth_ok b 2 ;;
  d3 <- nth_ok b 3 ;;
  id <- pid_deser [d0; d1; d2; d3] ;;
  rest <- slice_from b 4 ;;
  Ok (id, rest).

Definition pkt_payload_id (p : (N * N) * list N) : N * N := fst p.
Definition pkt_data (p : (N * N) * list N) : list N := snd p.
Definition pkt_split (p : (N * N) * list N) : (N * N) * list N := p.

(* ---- ObjectTransmissionInformation as (F, T, Z, N, Al) ---- *)

Definition oti : Type := (N * N * N * N * N)%type.

Definition oti_transfer_length (x : oti) : N := let '(F, _, _, _, _) := x in F.
Definition oti_symbol_size (x : oti) : N := let '(_, T, _, _, _) := x in T.
Definition oti_source_blocks (x : oti) : N := let '(_, _, Z, _, _) := x in Z.
Definition oti_sub_blocks (x : oti) : N := let '(_, _, _, Nsub, _) := x in Nsub.
Definition oti_symbol_alignment (x : oti) : N := let '(_, _, _, _, Al) := x in Al.

(* ObjectTransmissionInformation::serialize *)
Definition oti_ser (x : oti) : list N :=
  let '(F, T, Z, Nsub, Al) := x in
  [ u8 (N.land (N.shiftr F 32) 255);
    u8 (N.land (N.shiftr F 24) 255);
    u8 (N.land (N.shiftr F 16) 255);
    u8 (N.land (N.shiftr F 8) 255);
    u8 (N.land F 255);
    0;
    u8 (N.shiftr T 8);
    u8 (N.land T 255);
    Z;
    u8 (N.shiftr Nsub 8);
    u8 (N.land Nsub 255);
    Al ].

(* ObjectTransmissionInformation::deserialize(data: &[u8; 12]); data[5] is ignored *)
Definition oti_deser (b : list N) : outcome oti :=
  match b with
  | [d0; d1; d2; d3; d4; _; d6; d7; d8; d9; d10; d11] =>
      Ok ( N.shiftl d0 32 + N.shiftl d1 24 + N.shiftl d2 16 + N.shiftl d3 8 + d4,
           N.shiftl d6 8 + d7,
           d8,
           N.shiftl d9 8 + d10,
           d11 )
  | _ => Panic PIndex
  end.
