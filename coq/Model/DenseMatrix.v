(* Model of `DenseBinaryMatrix` (src/matrix.rs), the dense branch of `OctetIter` (src/iterators.rs),
   `add_assign_binary` (src/gf2.rs), `get_both_ranges` (src/util.rs) and the parts of
   `BinaryOctetVec` (src/octets.rs) needed to read back `get_sub_row_as_octets`.
   Transcribed function by function.  DEFINITIONS ONLY.

   Integers.  All `usize` values here are indices into, or sizes of, a vector that exists in memory,
   so every sum / product below is far below 2^64: plain N operations are used (the one subtraction
   that can underflow, `self.width - start_col`, is an explicit Panic POverflow branch; a `u64`
   word is an N < 2^64, invariant [dm_inv] of Proofs/DenseMatrixProofs.v).  Shift amounts are always
   `col % 64` or a counter in 0..63, so `1u64 << bit` never overflows.

   Panics.  Every `Vec` / slice index and every slice range is checked: out of range -> Panic PIndex.
   `debug_assert!`s of `get_both_ranges` are NOT modelled (release semantics); they can only differ
   from the slice checks when `dest_word = src_word`, i.e. when the row word width is 0 (width 0).

   Loop bounds and indices are converted with N.to_nat: feed the executable model with arguments
   below ~10^6 only (an absurd loop bound such as 2^40 makes N.to_nat diverge in practice). *)
From Coq Require Import NArith List Bool.
From RQ Require Import Base.Outcome Base.Ints Base.ListX Spec.BitMatrix.
Import ListNotations.
Open Scope N_scope.
Open Scope outcome_scope.

(* ---------------------------------------------------------------------------------------------- *)
(* Vec<u64> / slice primitives                                                                    *)
(* ---------------------------------------------------------------------------------------------- *)

Fixpoint upd {A} (l : list A) (i : nat) (v : A) : list A :=
  match l, i with
  | [], _ => []
  | _ :: t, O => v :: t
  | x :: t, S k => x :: upd t k v
  end.

(* v[i] *)
Definition vget (l : list N) (i : N) : outcome N :=
  if i <? N.of_nat (length l) then nth_ok l (N.to_nat i) else Panic PIndex.

(* v[i] = x *)
Definition vset (l : list N) (i : N) (x : N) : outcome (list N) :=
  if i <? N.of_nat (length l) then Ok (upd l (N.to_nat i) x) else Panic PIndex.

(* v.swap(a, b) *)
Definition vswap (l : list N) (a b : N) : outcome (list N) :=
  x <- vget l a ;; y <- vget l b ;; l1 <- vset l a y ;; vset l1 b x.

(* &v[a..b] *)
Definition slice_ok (l : list N) (a b : N) : outcome (list N) :=
  if (a <=? b) && (b <=? N.of_nat (length l))
  then Ok (firstn (N.to_nat (b - a)) (skipn (N.to_nat a) l))
  else Panic PIndex.

(* the values of `for x in a..b` *)
Definition range_from (a b : N) : list N := map (fun k => a + N.of_nat k) (seq 0 (N.to_nat (b - a))).

(* a loop with a mutable accumulator whose body can panic *)
Fixpoint ofold {A B} (f : A -> B -> outcome A) (l : list B) (a : A) : outcome A :=
  match l with
  | [] => Ok a
  | x :: t => a1 <- f a x ;; ofold f t a1
  end.

(* `for x in l { if p(x) { out.push(x) } }` with a body that can panic *)
Fixpoint ofilter {A} (p : A -> outcome bool) (l : list A) : outcome (list A) :=
  match l with
  | [] => Ok []
  | x :: t => b <- p x ;; r <- ofilter p t ;; Ok (if b then x :: r else r)
  end.

Fixpoint map2 {A B C} (f : A -> B -> C) (l1 : list A) (l2 : list B) : list C :=
  match l1, l2 with
  | a :: t1, b :: t2 => f a b :: map2 f t1 t2
  | _, _ => []
  end.

(* u64::count_ones *)
Fixpoint pop_pos (p : positive) : N :=
  match p with xH => 1 | xO q => pop_pos q | xI q => N.succ (pop_pos q) end.
Definition popcount (x : N) : N := match x with N0 => 0 | Npos p => pop_pos p end.

(* ---------------------------------------------------------------------------------------------- *)
(* DenseBinaryMatrix                                                                              *)
(* ---------------------------------------------------------------------------------------------- *)

Record dmat := mkdm { height : N; width : N; elements : list N }.

Definition WORD_WIDTH : N := 64.

Definition word_offset (col : N) : N := col / WORD_WIDTH.

(* self.width.div_ceil(WORD_WIDTH) *)
Definition row_word_width (m : dmat) : N := ceil_div (width m) WORD_WIDTH.

Definition bit_position (m : dmat) (row col : N) : N * N :=
  (row * row_word_width m + word_offset col, col mod WORD_WIDTH).

(* 1u64 << bit   (bit < 64 at every call site) *)
Definition select_mask (bit : N) : N := N.shiftl 1 bit.

(* `!x` on a u64 *)
Definition not64 (x : N) : N := N.ldiff (N.ones 64) x.

(* mask - 1 : e.g. 0100 -> 0011 *)
Definition select_all_right_of_mask (bit : N) : N := select_mask bit - 1.

Definition select_bit_and_all_left_mask (bit : N) : N := not64 (select_all_right_of_mask bit).

Definition clear_bit (word bit : N) : N := N.land word (not64 (select_mask bit)).
Definition set_bit (word bit : N) : N := N.lor word (select_mask bit).

(* vec![0; height * (width + WORD_WIDTH - 1) / WORD_WIDTH]  --  note: (height * (width + 63)) / 64 *)
Definition dm_new (h w : N) : dmat :=
  mkdm h w (repeat 0 (N.to_nat (h * (w + WORD_WIDTH - 1) / WORD_WIDTH))).

Definition with_elements (m : dmat) (els : list N) : dmat := mkdm (height m) (width m) els.

(* value : Octet byte; `value == Octet::zero()` *)
Definition dm_set (m : dmat) (i j value : N) : outcome dmat :=
  let '(word, bit) := bit_position m i j in
  x <- vget (elements m) word ;;
  let x' := if value =? 0 then clear_bit x bit else set_bit x bit in
  els <- vset (elements m) word x' ;;
  Ok (with_elements m els).

(* returns the Octet byte: 0 or 1 *)
Definition dm_get (m : dmat) (i j : N) : outcome N :=
  let '(word, bit) := bit_position m i j in
  x <- vget (elements m) word ;;
  Ok (if N.land x (select_mask bit) =? 0 then 0 else 1).

(* fixed = false : the pinned code
   fixed = true  : the repair, `if start_col >= end_col { return 0; }` at the very top *)
Definition dm_count_ones (fixed : bool) (m : dmat) (row start_col end_col : N) : outcome N :=
  if fixed && (end_col <=? start_col) then Ok 0 else
  let '(start_word, start_bit) := bit_position m row start_col in
  let '(end_word, end_bit) := bit_position m row end_col in
  if start_word =? end_word then
    (* only one word *)
    let mask := N.land (select_bit_and_all_left_mask start_bit) (select_all_right_of_mask end_bit) in
    x <- vget (elements m) start_word ;;
    Ok (popcount (N.land x mask))
  else
    x <- vget (elements m) start_word ;;
    let ones := popcount (N.land x (select_bit_and_all_left_mask start_bit)) in
    ones <- ofold (fun acc word => y <- vget (elements m) word ;; Ok (acc + popcount y))
                  (range_from (start_word + 1) end_word) ones ;;
    if 0 <? end_bit then
      y <- vget (elements m) end_word ;;
      Ok (ones + popcount (N.land y (select_all_right_of_mask end_bit)))
    else Ok ones.

(* OctetIter (dense branch): `next` until None.  State: dense_index, dense_word_index,
   dense_bit_index.  The loop is data dependent (it stops when dense_index == end_col, or panics
   when the word index leaves the slice), hence fuel; 64 * (len + 1) + 1 steps always suffice. *)
Fixpoint iter_dense (fuel : nat) (sl : list N) (end_col idx widx bidx : N) : outcome (list (N * N)) :=
  match fuel with
  | O => Panic PFuel
  | S f =>
      if idx =? end_col then Ok []
      else
        x <- vget sl widx ;;
        let value := if N.land x (select_mask bidx) =? 0 then 0 else 1 in
        let bidx1 := bidx + 1 in
        let '(bidx2, widx2) := if bidx1 =? 64 then (0, widx + 1) else (bidx1, widx) in
        rest <- iter_dense f sl end_col (idx + 1) widx2 bidx2 ;;
        Ok ((idx, value) :: rest)
  end.

(* fixed = false : the pinned code, `&self.elements[first_word..=last_word]`
   fixed = true  : the repair, `&self.elements[first_word..first_word + word_count]` *)
Definition dm_get_row_iter (fixed : bool) (m : dmat) (row start_col end_col : N)
  : outcome (list (N * N)) :=
  let '(first_word, first_bit) := bit_position m row start_col in
  sl <- (if fixed then
           let word_count := if start_col <? end_col
                             then word_offset (end_col - 1) - word_offset start_col + 1 else 0 in
           slice_ok (elements m) first_word (first_word + word_count)
         else
           let '(last_word, _) := bit_position m row end_col in
           slice_ok (elements m) first_word (last_word + 1)) ;;
  iter_dense (64 * (length sl + 1) + 1) sl end_col start_col 0 first_bit.

(* rows as `row as u32` *)
Definition dm_get_ones_in_column (m : dmat) (col start_row end_row : N) : outcome (list N) :=
  rows <- ofilter (fun row => v <- dm_get m row col ;; Ok (v =? 1)) (range_from start_row end_row) ;;
  Ok (map u32 rows).

(* BinaryOctetVec as (elements, length).  The loop state is (result, word, bit). *)
Definition dm_get_sub_row_as_octets (m : dmat) (row start_col : N) : outcome (list N * N) :=
  if width m <? start_col then Panic POverflow
  else
    let n := width m - start_col in
    let result := repeat 0 (N.to_nat (ceil_div n 64)) in
    st <- ofold (fun (st : list N * N * N) col =>
                   let '(res, word, bit) := st in
                   wb <- (if bit =? 0
                          then (if word =? 0 then Panic POverflow else Ok (word - 1, 63))
                          else Ok (word, bit - 1)) ;;
                   let '(word, bit) := wb in
                   v <- dm_get m row col ;;
                   if v =? 1 then
                     x <- vget res word ;;
                     res' <- vset res word (N.lor x (select_mask bit)) ;;
                     Ok (res', word, bit)
                   else Ok (res, word, bit))
                (rev (range_from start_col (width m)))
                (result, N.of_nat (length result), 0) ;;
    let '(res, _, _) := st in
    (* BinaryOctetVec::new: assert_eq!(elements.len(), length.div_ceil(64)) *)
    assert_ok (N.of_nat (length res) =? ceil_div n 64) ;;;
    Ok (res, n).

(* BinaryOctetVec::padding_bits / to_octet_vec: how the packed sub-row is read back *)
Definition bov_padding_bits (len : N) : N := (64 - len mod 64) mod 64.

Fixpoint bov_unpack (n : nat) (els : list N) (word bit : N) : outcome (list N * N * N) :=
  match n with
  | O => Ok ([], word, bit)
  | S k =>
      x <- vget els word ;;
      let value := if N.land x (select_mask bit) =? 0 then 0 else 1 in
      let bit1 := bit + 1 in
      let '(word2, bit2) := if bit1 =? 64 then (word + 1, 0) else (word, bit1) in
      r <- bov_unpack k els word2 bit2 ;;
      let '(rest, wf, bf) := r in
      Ok (value :: rest, wf, bf)
  end.

Definition bov_to_octet_vec (els : list N) (len : N) : outcome (list N) :=
  r <- bov_unpack (N.to_nat len) els 0 (bov_padding_bits len) ;;
  let '(res, word, bit) := r in
  assert_ok (word =? N.of_nat (length els)) ;;;
  assert_ok (bit =? 0) ;;;
  Ok res.

Definition dm_query_non_zero_columns (m : dmat) (row start_col : N) : outcome (list N) :=
  ofilter (fun col => v <- dm_get m row col ;; Ok (negb (v =? 0))) (range_from start_col (width m)).

Definition dm_swap_rows (m : dmat) (i j : N) : outcome dmat :=
  let '(row_i, _) := bit_position m i 0 in
  let '(row_j, _) := bit_position m j 0 in
  els <- ofold (fun els k => vswap els (row_i + k) (row_j + k))
               (range_from 0 (row_word_width m)) (elements m) ;;
  Ok (with_elements m els).

(* one iteration of the row loop of swap_columns; every `self.elements[..]` is an indexed access *)
Definition swap_columns_row (word_i word_j bit_i bit_j unset_i unset_j row_width : N)
  (els : list N) (row : N) : outcome (list N) :=
  let pi := row * row_width + word_i in
  let pj := row * row_width + word_j in
  xi <- vget els pi ;;
  let i_set := negb (N.land xi bit_i =? 0) in
  xj <- vget els pj ;;
  els1 <- (if N.land xj bit_j =? 0
           then (y <- vget els pi ;; vset els pi (N.land y unset_i))
           else (y <- vget els pi ;; vset els pi (N.lor y bit_i))) ;;
  if i_set
  then (y <- vget els1 pj ;; vset els1 pj (N.lor y bit_j))
  else (y <- vget els1 pj ;; vset els1 pj (N.land y unset_j)).

Definition dm_swap_columns (m : dmat) (i j start_row_hint : N) : outcome dmat :=
  let '(word_i, bit_i) := bit_position m 0 i in
  let '(word_j, bit_j) := bit_position m 0 j in
  let unset_i := not64 (select_mask bit_i) in
  let unset_j := not64 (select_mask bit_j) in
  let bit_i := select_mask bit_i in
  let bit_j := select_mask bit_j in
  let row_width := row_word_width m in
  els <- ofold (swap_columns_row word_i word_j bit_i bit_j unset_i unset_j row_width)
               (range_from start_row_hint (height m)) (elements m) ;;
  Ok (with_elements m els).

Definition dm_enable_column_access_acceleration (m : dmat) : dmat := m.
Definition dm_disable_column_access_acceleration (m : dmat) : dmat := m.
Definition dm_hint_column_dense_and_frozen (m : dmat) (col : N) : dmat := m.

(* util.rs get_both_ranges (release: split_at_mut + two range slices) *)
Definition get_both_ranges (v : list N) (i j len : N) : outcome (list N * list N) :=
  let n := N.of_nat (length v) in
  if i <? j then
    if n <? j then Panic PIndex
    else
      a <- slice_ok (firstn (N.to_nat j) v) i (i + len) ;;
      b <- slice_ok (skipn (N.to_nat j) v) 0 len ;;
      Ok (a, b)
  else
    if n <? i then Panic PIndex
    else
      a <- slice_ok (skipn (N.to_nat i) v) 0 len ;;
      b <- slice_ok (firstn (N.to_nat i) v) j (j + len) ;;
      Ok (a, b).

(* gf2.rs add_assign_binary: dest[k] ^= src[..dest.len()][k] *)
Definition add_assign_binary (dest src : list N) : outcome (list N) :=
  s <- slice_ok src 0 (N.of_nat (length dest)) ;;
  Ok (map2 N.lxor dest s).

(* write a mutated sub-slice back at its position *)
Definition splice (v : list N) (at_ : N) (x : list N) : list N :=
  firstn (N.to_nat at_) v ++ x ++ skipn (N.to_nat at_ + length x) v.

(* `_start_col` is ignored by the dense matrix *)
Definition dm_add_assign_rows (m : dmat) (dest src start_col : N) : outcome dmat :=
  if dest =? src then Panic PAssert
  else
    let '(dest_word, _) := bit_position m dest 0 in
    let '(src_word, _) := bit_position m src 0 in
    let row_width := row_word_width m in
    p <- get_both_ranges (elements m) dest_word src_word row_width ;;
    let '(dest_row, temp_row) := p in
    d <- add_assign_binary dest_row temp_row ;;
    Ok (with_elements m (splice (elements m) dest_word d)).

(* the compaction loop of resize: `while dest < new_height * new_row_width` runs exactly
   new_height * new_row_width times (dest starts at 0 and is incremented once per iteration) *)
Fixpoint resize_loop (n : nat) (els : list N) (src dest new_row_width words_to_remove : N)
  : outcome (list N * N) :=
  match n with
  | O => Ok (els, src)
  | S k =>
      x <- vget els src ;;
      els1 <- vset els dest x ;;
      let src1 := src + 1 in
      let dest1 := dest + 1 in
      r <- rem_ok dest1 new_row_width ;;
      let src2 := if r =? 0 then src1 + words_to_remove else src1 in
      resize_loop k els1 src2 dest1 new_row_width words_to_remove
  end.

Definition dm_resize (m : dmat) (new_height new_width : N) : outcome dmat :=
  if negb (new_height <=? height m) then Panic PAssert
  else if negb (new_width <=? width m) then Panic PAssert
  else
    let old_row_width := row_word_width m in
    let m1 := mkdm new_height new_width (elements m) in
    let new_row_width := row_word_width m1 in
    let words_to_remove := old_row_width - new_row_width in
    els <- (if 0 <? words_to_remove then
              r <- resize_loop (N.to_nat (new_height * new_row_width)) (elements m) 0 0
                               new_row_width words_to_remove ;;
              let '(els, src) := r in
              assert_ok (src =? new_height * old_row_width) ;;;
              Ok els
            else Ok (elements m)) ;;
    (* truncate: no effect when the vector is already shorter *)
    Ok (mkdm new_height new_width (firstn (N.to_nat (new_height * new_row_width)) els)).

(* ---------------------------------------------------------------------------------------------- *)
(* Running operation sequences                                                                    *)
(* ---------------------------------------------------------------------------------------------- *)

Definition nz (x : N) : bool := negb (x =? 0).
Definition b2n (b : bool) : N := if b then 1 else 0.

(* one operation on the dense matrix; answers converted to the spec's answer type *)
Definition dm_step (fixed : bool) (m : dmat) (o : op) : outcome (dmat * option ans) :=
  match o with
  | OSet i j v => m' <- dm_set m i j v ;; Ok (m', None)
  | OGet i j => v <- dm_get m i j ;; Ok (m, Some (ABit (nz v)))
  | OSwapRows i j => m' <- dm_swap_rows m i j ;; Ok (m', None)
  | OSwapCols i j hint => m' <- dm_swap_columns m i j hint ;; Ok (m', None)
  | OAddRows d s c => m' <- dm_add_assign_rows m d s c ;; Ok (m', None)
  | OResize nh nw => m' <- dm_resize m nh nw ;; Ok (m', None)
  | OCountOnes row s e => v <- dm_count_ones fixed m row s e ;; Ok (m, Some (ANat (N.to_nat v)))
  | ORowIter row s e =>
      l <- dm_get_row_iter fixed m row s e ;;
      Ok (m, Some (ARow (map (fun cv => (N.to_nat (fst cv), nz (snd cv))) l)))
  | OOnesInCol col s e =>
      l <- dm_get_ones_in_column m col s e ;; Ok (m, Some (ANats (map N.to_nat l)))
  | OSubRow row s =>
      p <- dm_get_sub_row_as_octets m row s ;;
      let '(ws, n) := p in
      bits <- bov_to_octet_vec ws n ;;
      Ok (m, Some (ABits (map nz bits)))
  | ONonZeroCols row s =>
      l <- dm_query_non_zero_columns m row s ;; Ok (m, Some (ANats (map N.to_nat l)))
  | OFreeze col => Ok (dm_hint_column_dense_and_frozen m col, None)
  | OEnableAccel => Ok (dm_enable_column_access_acceleration m, None)
  | ODisableAccel => Ok (dm_disable_column_access_acceleration m, None)
  end.

Fixpoint dm_exec (fixed : bool) (m : dmat) (ops : list op) : outcome (dmat * list (option ans)) :=
  match ops with
  | [] => Ok (m, [])
  | o :: t =>
      r <- dm_step fixed m o ;;
      let '(m1, a) := r in
      r2 <- dm_exec fixed m1 t ;;
      let '(m2, l) := r2 in
      Ok (m2, a :: l)
  end.

(* ---- entry point for differential testing ----
   An operation is a list [opcode; args...]:
      1 set i j v            (v < 256: Octet byte; 0 stores 0, else 1)   answer: none
      2 get i j                                    answer: the bit
      3 swap_rows i j                              answer: none
      4 swap_columns i j start_row_hint            answer: none
      5 add_assign_rows dest src start_col         answer: none
      6 resize new_height new_width                answer: none
      7 count_ones row start_col end_col           answer: the count
      8 get_row_iter row start_col end_col         answer: the columns whose value is 1, increasing
      9 get_ones_in_column col start_row end_row   answer: the rows, increasing
     10 get_sub_row_as_octets row start_col        answer: the bits unpacked by to_octet_vec
     11 query_non_zero_columns row start_col       answer: the columns, increasing
     12 hint_column_dense_and_frozen col           answer: none
     13 enable_column_access_acceleration          answer: none
     14 disable_column_access_acceleration         answer: none
   Output: one list per operation executed: 1 :: answer, or [0] for a panic; execution stops at the
   first panic (its [0] is the last output).  A malformed operation (unknown opcode or wrong number
   of arguments) outputs [2] and stops. *)
Definition decode_op (l : list N) : option op :=
  match l with
  | [1; i; j; v] => Some (OSet i j v)
  | [2; i; j] => Some (OGet i j)
  | [3; i; j] => Some (OSwapRows i j)
  | [4; i; j; hint] => Some (OSwapCols i j hint)
  | [5; d; s; c] => Some (OAddRows d s c)
  | [6; nh; nw] => Some (OResize nh nw)
  | [7; row; s; e] => Some (OCountOnes row s e)
  | [8; row; s; e] => Some (ORowIter row s e)
  | [9; col; s; e] => Some (OOnesInCol col s e)
  | [10; row; s] => Some (OSubRow row s)
  | [11; row; s] => Some (ONonZeroCols row s)
  | [12; col] => Some (OFreeze col)
  | [13] => Some OEnableAccel
  | [14] => Some ODisableAccel
  | _ => None
  end.

Definition enc_ans (a : option ans) : list N :=
  match a with
  | None => [1]
  | Some (ABit b) => [1; b2n b]
  | Some (ANat n) => [1; N.of_nat n]
  | Some (ARow l) => 1 :: map (fun cv => N.of_nat (fst cv)) (filter (fun cv => snd cv) l)
  | Some (ANats l) => 1 :: map N.of_nat l
  | Some (ABits l) => 1 :: map b2n l
  end.

Fixpoint dm_run_from (fixed : bool) (m : dmat) (ops : list (list N)) : list (list N) :=
  match ops with
  | [] => []
  | l :: t =>
      match decode_op l with
      | None => [[2]]
      | Some o =>
          match dm_step fixed m o with
          | Panic _ => [[0]]
          | Ok (m1, a) => enc_ans a :: dm_run_from fixed m1 t
          end
      end
  end.

Definition dm_run (fixed : bool) (h w : N) (ops : list (list N)) : list (list N) :=
  dm_run_from fixed (dm_new h w) ops.

(* the same encoding of the abstract machine's answers (oracle side, admissible sequences only) *)
Fixpoint bm_run_from (a : bitmat) (ops : list (list N)) : list (list N) :=
  match ops with
  | [] => []
  | l :: t =>
      match decode_op l with
      | None => [[2]]
      | Some o => if adm o a
                  then let '(a1, r) := bm_step a o in enc_ans r :: bm_run_from a1 t
                  else [[3]]
      end
  end.
Definition bm_run (h w : N) (ops : list (list N)) : list (list N) :=
  bm_run_from (bm_new (N.to_nat h) (N.to_nat w)) ops.
