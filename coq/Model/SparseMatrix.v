(* Model of `SparseBinaryMatrix` (src/sparse_matrix.rs) together with `SparseBinaryVec`
   (src/sparse_vec.rs), `ImmutableListMap` / `ImmutableListMapBuilder` (src/arraymap.rs), the sparse
   branch of `OctetIter::next` (src/iterators.rs) and `get_both_indices` (src/util.rs).
   Transcribed statement by statement.  DEFINITIONS ONLY.

   Representation choices
   * `SparseBinaryVec.elements : Vec<u16>` (kept sorted, only ones are stored) is a `list N` of keys;
     `keys_values` / `get_by_raw_index` attach the implicit `Octet::one()` (the byte 1).
     `binary_search` is modelled by a left-to-right scan ([sv_search]): on a strictly increasing
     vector (which every operation below preserves, whatever the arguments) both return the same
     `Ok(index)` / `Err(insertion index)`.
   * `ImmutableListMap` (offsets + values) is modelled by the list, for every key below `num_keys`,
     of the values stored under that key ([ilm]); `build`'s two asserts and its `offsets[key]` index
     checks are modelled.  `sort_unstable_by_key` does not fix the order of the values of one key;
     the model keeps insertion order, and every consumer is order-insensitive (answers of
     get_ones_in_column are compared as sets; the freeze loop touches distinct rows).
   * `fixed` (the `_gen` definitions): true = the current tree; false = the code before the five
     repairs of the sparse matrix (freeze without a dense word, empty ImmutableListMap,
     query_non_zero_columns without dense columns, swap_columns with a dense first argument,
     enable not clearing the debug staleness marks).  The un-suffixed names are the current code.
   * `mode`: Release = release profile (no debug assertions, wrapping arithmetic);
     Checked = dev profile (debug_assert!, overflow checks, the `debug_indexed_column_valid`
     vector and `verify()` exist).  In Release the field [s_valid] stays [] and is never touched.

   Integers.  `self.width - self.num_dense_columns`, `self.width - j`, `self.width - new_width`,
   `self.height - 1`, `col + tz - bit` and the re-spacing loop's `dest -= 1` can underflow for
   arguments outside the preconditions: they use [sub_w mode 64].  All other sums / products are
   bounded by sizes of vectors that exist in memory (plain N operations, as in Model/DenseMatrix.v).
   `as u16` / `as u32` casts truncate.

   Loop bounds and indices are converted with N.to_nat only after a range check. *)
From Coq Require Import NArith List Bool.
From RQ Require Import Base.Outcome Base.Ints Base.ListX Spec.BitMatrix Spec.SparseAdm
  Model.DenseMatrix.
Import ListNotations.
Open Scope N_scope.
Open Scope outcome_scope.

(* ---------------------------------------------------------------------------------------------- *)
(* Vec<T> primitives (polymorphic counterparts of vget / vset / vswap)                            *)
(* ---------------------------------------------------------------------------------------------- *)

Definition lget {A} (l : list A) (i : N) : outcome A :=
  if i <? N.of_nat (length l) then nth_ok l (N.to_nat i) else Panic PIndex.

Definition lset {A} (l : list A) (i : N) (x : A) : outcome (list A) :=
  if i <? N.of_nat (length l) then Ok (upd l (N.to_nat i) x) else Panic PIndex.

Definition lswap {A} (l : list A) (a b : N) : outcome (list A) :=
  x <- lget l a ;; y <- lget l b ;; l1 <- lset l a y ;; lset l1 b x.

(* Vec::remove(index) / Vec::insert(index, v) for an index produced by binary_search
   (always <= len, and < len for `Ok`) *)
Fixpoint remove_at {A} (l : list A) (i : nat) : list A :=
  match l, i with
  | [], _ => []
  | _ :: t, O => t
  | x :: t, S k => x :: remove_at t k
  end.

Fixpoint insert_at {A} (l : list A) (i : nat) (v : A) : list A :=
  match i, l with
  | O, _ => v :: l
  | S k, x :: t => x :: insert_at t k v
  | S _, [] => [v]
  end.

Definition unwrap {A} (o : option A) : outcome A :=
  match o with Some a => Ok a | None => Panic PUnwrap end.

(* ---------------------------------------------------------------------------------------------- *)
(* SparseBinaryVec                                                                                *)
(* ---------------------------------------------------------------------------------------------- *)

Definition svec := list N.          (* elements: Vec<u16>, strictly increasing *)

Inductive bsres := Found (i : nat) | Missing (i : nat).

(* key_to_internal_index: self.elements.binary_search(&i) *)
Fixpoint sv_search_from (l : list N) (k : N) (idx : nat) : bsres :=
  match l with
  | [] => Missing idx
  | x :: t => if x =? k then Found idx
              else if k <? x then Missing idx
              else sv_search_from t k (S idx)
  end.
Definition sv_search (l : svec) (k : N) : bsres := sv_search_from l k 0.

Definition sv_new : svec := [].
Definition sv_len (l : svec) : N := N.of_nat (length l).

(* (self.elements[i] as usize, Octet::one()) *)
Definition sv_get_by_raw_index (l : svec) (i : N) : outcome (N * N) :=
  x <- lget l i ;; Ok (x, 1).

(* the general path of add_assign: the merge loop; returns (result, column_added) *)
Fixpoint sv_merge (a : list N) : list N -> list N * bool :=
  fix go (b : list N) : list N * bool :=
    match a, b with
    | x :: ta, y :: tb =>
        if x <? y then let '(r, c) := sv_merge ta b in (x :: r, c)
        else if x =? y then sv_merge ta tb
        else let '(r, c) := go tb in (y :: r, true)
    | _ :: _, [] => (a, false)
    | [], _ :: _ => (b, true)
    | [], [] => ([], false)
    end.

(* Returns true, if a new column was added *)
Definition sv_add_assign (self other : svec) : svec * bool :=
  match other with
  | [other_index] =>
      (* Fast path for a single value that's being eliminated *)
      match sv_search self other_index with
      | Found index => (remove_at self index, false)
      | Missing index => (insert_at self index other_index, true)
      end
  | _ => sv_merge self other
  end.

(* remove(i: usize): key_to_internal_index(i as u16) *)
Definition sv_remove (l : svec) (i : N) : svec * option N :=
  match sv_search l (u16 i) with
  | Found index => (remove_at l index, Some 1)
  | Missing _ => (l, None)
  end.

(* retain: the predicate may index a vector, hence the outcome *)
Fixpoint sv_retain (p : N * N -> outcome bool) (l : svec) : outcome svec :=
  match l with
  | [] => Ok []
  | x :: t => b <- p (x, 1) ;; r <- sv_retain p t ;; Ok (if b then x :: r else r)
  end.

Definition sv_get (l : svec) (i : N) : option N :=
  match sv_search l (u16 i) with Found _ => Some 1 | Missing _ => None end.

Definition sv_keys_values (l : svec) : list (N * N) := map (fun k => (k, 1)) l.

(* insert(i, value); debug_assert!(i < 65536) *)
Definition sv_insert (md : mode) (l : svec) (i value : N) : outcome svec :=
  (match md with Checked => assert_ok (i <? 65536) | Release => Ok tt end) ;;;
  if value =? 0 then Ok (fst (sv_remove l i))
  else match sv_search l (u16 i) with
       | Found _ => Ok l
       | Missing index => Ok (insert_at l index (u16 i))
       end.

(* ---------------------------------------------------------------------------------------------- *)
(* ImmutableListMap                                                                               *)
(* ---------------------------------------------------------------------------------------------- *)

Definition ilm := list (list N).    (* position k: the values of key k; length = num_keys *)

(* get(i): `self.offsets[i]` is the only access that can fail *)
Definition ilm_get (m : ilm) (i : N) : outcome (list N) := lget m i.

(* ImmutableListMapBuilder::build on `entries` (in insertion order) with `num_keys` keys:
     assert!(entries.len() < u32::MAX);
     offsets[key] = ..   for every distinct key: out of range iff some key >= num_keys;
   an empty entry list gives the map in which every key has the empty list.
   fixed = false : the code before the repair, which also had `assert!(!entries.is_empty());` *)
Definition ilm_build_gen (fixed : bool) (num_keys : N) (entries : list (N * N)) : outcome ilm :=
  if negb (N.of_nat (length entries) <? 2 ^ 32 - 1) then Panic PAssert
  else if negb fixed && (match entries with [] => true | _ :: _ => false end) then Panic PAssert
  else if forallb (fun e => fst e <? num_keys) entries
       then Ok (map (fun k => map snd (filter (fun e => fst e =? k) entries))
                    (range_from 0 num_keys))
       else Panic PIndex.
Definition ilm_build := ilm_build_gen true.

(* ---------------------------------------------------------------------------------------------- *)
(* SparseBinaryMatrix                                                                             *)
(* ---------------------------------------------------------------------------------------------- *)

Record smat := mksm {
  s_height : N;
  s_width : N;
  s_rows : list svec;              (* sparse_elements, by physical row *)
  s_dense : list N;                (* dense_elements: u64 words, right aligned *)
  s_index : option ilm;            (* sparse_columnar_values *)
  s_l2p_row : list N;              (* logical_row_to_physical : Vec<u32> *)
  s_p2l_row : list N;              (* physical_row_to_logical : Vec<u32> *)
  s_l2p_col : list N;              (* logical_col_to_physical : Vec<u16> *)
  s_p2l_col : list N;              (* physical_col_to_logical : Vec<u16> *)
  s_disabled : bool;               (* column_index_disabled *)
  s_valid : list bool;             (* debug_indexed_column_valid (Checked only; [] in Release) *)
  s_nd : N                         (* num_dense_columns *)
}.

Definition set_rows (m : smat) (x : list svec) : smat :=
  mksm (s_height m) (s_width m) x (s_dense m) (s_index m) (s_l2p_row m) (s_p2l_row m)
       (s_l2p_col m) (s_p2l_col m) (s_disabled m) (s_valid m) (s_nd m).
Definition set_dense (m : smat) (x : list N) : smat :=
  mksm (s_height m) (s_width m) (s_rows m) x (s_index m) (s_l2p_row m) (s_p2l_row m)
       (s_l2p_col m) (s_p2l_col m) (s_disabled m) (s_valid m) (s_nd m).
Definition set_index (m : smat) (x : option ilm) (dis : bool) : smat :=
  mksm (s_height m) (s_width m) (s_rows m) (s_dense m) x (s_l2p_row m) (s_p2l_row m)
       (s_l2p_col m) (s_p2l_col m) dis (s_valid m) (s_nd m).
Definition set_row_maps (m : smat) (l2p p2l : list N) : smat :=
  mksm (s_height m) (s_width m) (s_rows m) (s_dense m) (s_index m) l2p p2l
       (s_l2p_col m) (s_p2l_col m) (s_disabled m) (s_valid m) (s_nd m).
Definition set_col_maps (m : smat) (l2p p2l : list N) (valid : list bool) : smat :=
  mksm (s_height m) (s_width m) (s_rows m) (s_dense m) (s_index m) (s_l2p_row m) (s_p2l_row m)
       l2p p2l (s_disabled m) valid (s_nd m).
Definition set_valid (m : smat) (valid : list bool) : smat :=
  mksm (s_height m) (s_width m) (s_rows m) (s_dense m) (s_index m) (s_l2p_row m) (s_p2l_row m)
       (s_l2p_col m) (s_p2l_col m) (s_disabled m) valid (s_nd m).
Definition set_nd (m : smat) (nd : N) : smat :=
  mksm (s_height m) (s_width m) (s_rows m) (s_dense m) (s_index m) (s_l2p_row m) (s_p2l_row m)
       (s_l2p_col m) (s_p2l_col m) (s_disabled m) (s_valid m) nd.

Definition debug_assert (md : mode) (b : bool) : outcome unit :=
  match md with Checked => assert_ok b | Release => Ok tt end.

(* self.width - self.num_dense_columns *)
Definition sm_fd (md : mode) (m : smat) : outcome N := sub_w md 64 (s_width m) (s_nd m).

(* Number of words required per row: self.num_dense_columns.div_ceil(WORD_WIDTH) *)
Definition sm_rww (m : smat) : N := ceil_div (s_nd m) WORD_WIDTH.

(* Returns the number of unused bits on the left of each row *)
Definition sm_lpb (m : smat) : N := (WORD_WIDTH - (s_nd m) mod WORD_WIDTH) mod WORD_WIDTH.

Definition sm_word_offset (m : smat) (bit : N) : N := (sm_lpb m + bit) / WORD_WIDTH.

Definition sm_bit_position (m : smat) (row col : N) : N * N :=
  (row * sm_rww m + sm_word_offset m col, (sm_lpb m + col) mod WORD_WIDTH).

(* logical_col_to_dense_col: assert!(col >= self.width - self.num_dense_columns) *)
Definition sm_dense_col (md : mode) (m : smat) (col : N) : outcome N :=
  fd <- sm_fd md m ;;
  if fd <=? col then Ok (col - fd) else Panic PAssert.

(* new(height, width, trailing_dense_column_hint) *)
Definition sm_new (md : mode) (h w hint : N) : outcome smat :=
  debug_assert md (h <? 16777216) ;;;
  debug_assert md (w <? 65536) ;;;
  let row_mapping := map u32 (range_from 0 h) in
  let col_mapping := map u16 (range_from 0 w) in
  let dense := if 0 <? hint
               then repeat 0 (N.to_nat (h * ((hint - 1) / WORD_WIDTH + 1)))
               else [] in
  Ok (mksm h w (repeat sv_new (N.to_nat h)) dense None row_mapping row_mapping
           col_mapping col_mapping true
           (match md with Checked => repeat true (N.to_nat w) | Release => [] end)
           hint).

Definition sm_set (md : mode) (m : smat) (i j value : N) : outcome smat :=
  physical_i <- vget (s_l2p_row m) i ;;
  physical_j <- vget (s_l2p_col m) j ;;
  d <- sub_w md 64 (s_width m) j ;;
  if d <=? s_nd m then
    dc <- sm_dense_col md m j ;;
    let '(word, bit) := sm_bit_position m physical_i dc in
    x <- vget (s_dense m) word ;;
    de <- vset (s_dense m) word (if value =? 0 then clear_bit x bit else set_bit x bit) ;;
    Ok (set_dense m de)
  else
    r <- lget (s_rows m) physical_i ;;
    r' <- sv_insert md r physical_j value ;;
    rows <- lset (s_rows m) physical_i r' ;;
    assert_ok (s_disabled m) ;;;
    Ok (set_rows m rows).

(* returns the Octet byte *)
Definition sm_get (md : mode) (m : smat) (i j : N) : outcome N :=
  physical_i <- vget (s_l2p_row m) i ;;
  physical_j <- vget (s_l2p_col m) j ;;
  d <- sub_w md 64 (s_width m) j ;;
  if d <=? s_nd m then
    dc <- sm_dense_col md m j ;;
    let '(word, bit) := sm_bit_position m physical_i dc in
    x <- vget (s_dense m) word ;;
    Ok (if N.land x (select_mask bit) =? 0 then 0 else 1)
  else
    r <- lget (s_rows m) physical_i ;;
    Ok (match sv_get r physical_j with Some v => v | None => 0 end).

Definition sm_count_ones (md : mode) (m : smat) (row start_col end_col : N) : outcome N :=
  fd <- sm_fd md m ;;
  if fd <? end_col then Panic PUnimpl
  else
    physical_row <- vget (s_l2p_row m) row ;;
    r <- lget (s_rows m) physical_row ;;
    ofold (fun ones (kv : N * N) =>
             let '(physical_col, value) := kv in
             col <- vget (s_p2l_col m) physical_col ;;
             Ok (if (start_col <=? col) && (col <? end_col) && (value =? 1) then ones + 1 else ones))
          (sv_keys_values r) 0.

(* OctetIter (sparse branch), `next` until None: the (logical col, value) pairs in the iterator's
   own order (the physical order of the row's keys).  The comparisons are made in u16. *)
Fixpoint iter_sparse (p2l : list N) (start_col end_col : N) (elements : svec) (sparse_index : nat)
  (n : nat) : outcome (list (N * N)) :=
  match n with
  | O => Ok []
  | S k =>
      entry <- sv_get_by_raw_index elements (N.of_nat sparse_index) ;;
      logical_col <- vget p2l (fst entry) ;;
      rest <- iter_sparse p2l start_col end_col elements (S sparse_index) k ;;
      Ok (if (u16 start_col <=? logical_col) && (logical_col <? u16 end_col)
          then (logical_col, snd entry) :: rest else rest)
  end.

Definition sm_get_row_iter (md : mode) (m : smat) (row start_col end_col : N)
  : outcome (list (N * N)) :=
  fd <- sm_fd md m ;;
  if fd <? end_col then Panic PUnimpl
  else
    physical_row <- vget (s_l2p_row m) row ;;
    r <- lget (s_rows m) physical_row ;;
    iter_sparse (s_p2l_col m) start_col end_col r 0 (length r).

(* rows as u32, in the order of the index list *)
Definition sm_get_ones_in_column (md : mode) (m : smat) (col start_row end_row : N)
  : outcome (list N) :=
  assert_ok (negb (s_disabled m)) ;;;
  (match md with
   | Checked => v <- lget (s_valid m) col ;; assert_ok v
   | Release => Ok tt
   end) ;;;
  physical_col <- vget (s_l2p_col m) col ;;
  ix <- unwrap (s_index m) ;;
  lst <- ilm_get ix physical_col ;;
  ofold (fun out physical_row =>
           logical_row <- vget (s_p2l_row m) physical_row ;;
           Ok (if (start_row <=? logical_row) && (logical_row <? u32 end_row)
               then out ++ [logical_row] else out))
        lst [].

(* BinaryOctetVec as (elements, length), as in Model/DenseMatrix.v *)
Definition sm_get_sub_row_as_octets (md : mode) (m : smat) (row start_col : N)
  : outcome (list N * N) :=
  first_dense_column <- sm_fd md m ;;
  assert_ok (start_col =? first_dense_column) ;;;
  physical_row <- vget (s_l2p_row m) row ;;
  dc <- sm_dense_col md m start_col ;;
  let '(first_word, _) := sm_bit_position m physical_row dc in
  let last_word := first_word + sm_rww m in
  ws <- slice_ok (s_dense m) first_word last_word ;;
  (* BinaryOctetVec::new: assert_eq!(elements.len(), length.div_ceil(64)) *)
  assert_ok (N.of_nat (length ws) =? ceil_div (s_nd m) 64) ;;;
  Ok (ws, s_nd m).

(* u64::trailing_zeros *)
Fixpoint ctz_pos (p : positive) : N :=
  match p with xO q => N.succ (ctz_pos q) | _ => 0 end.
Definition tz64 (x : N) : N := match x with N0 => 64 | Npos p => ctz_pos p end.

(* while block.trailing_zeros() < 64 { out.push(col + tz - bit); block &= !mask(tz) }
   at most 64 iterations for a u64; fuel 65 *)
Fixpoint drain_block (md : mode) (fuel : nat) (block col bit : N) (out : list N)
  : outcome (list N) :=
  match fuel with
  | O => Panic PFuel
  | S f =>
      let tz := tz64 block in
      if tz <? WORD_WIDTH then
        c <- sub_w md 64 (col + tz) bit ;;
        drain_block md f (N.land block (not64 (select_mask tz))) col bit (out ++ [c])
      else Ok out
  end.

(* while col < self.width() { ...; col += 64; word += 1 } *)
Fixpoint nz_words (md : mode) (fuel : nat) (m : smat) (col word : N) (out : list N)
  : outcome (list N) :=
  match fuel with
  | O => Panic PFuel
  | S f =>
      if col <? s_width m then
        block <- vget (s_dense m) word ;;
        out1 <- drain_block md 65 block col 0 out ;;
        nz_words md f m (col + WORD_WIDTH) (word + 1) out1
      else Ok out
  end.

(* fixed = true : `if self.num_dense_columns == 0 { return; }` right after the assert
   fixed = false : the code before that repair (reads the first dense word unconditionally) *)
Definition sm_query_non_zero_columns_gen (fixed : bool) (md : mode) (m : smat) (row start_col : N)
  : outcome (list N) :=
  fd <- sm_fd md m ;;
  assert_ok (start_col =? fd) ;;;
  if fixed && (s_nd m =? 0) then Ok [] else
  physical_row <- vget (s_l2p_row m) row ;;
  dc <- sm_dense_col md m start_col ;;
  let '(word, bit) := sm_bit_position m physical_row dc in
  let col := start_col in
  block <- vget (s_dense m) word ;;
  out <- drain_block md 65 block col bit [] ;;
  let col := col + (WORD_WIDTH - bit) in
  let word := word + 1 in
  nz_words md (S (N.to_nat (s_width m / WORD_WIDTH + 1))) m col word out.
Definition sm_query_non_zero_columns := sm_query_non_zero_columns_gen true.

Definition sm_swap_rows (md : mode) (m : smat) (i j : N) : outcome smat :=
  physical_i <- vget (s_l2p_row m) i ;;
  physical_j <- vget (s_l2p_row m) j ;;
  l2p <- vswap (s_l2p_row m) i j ;;
  p2l <- vswap (s_p2l_row m) physical_i physical_j ;;
  Ok (set_row_maps m l2p p2l).

(* fixed = true : `if i >= first_dense || j >= first_dense { unimplemented!() }`
   fixed = false : the code before that repair, which only looked at j *)
Definition sm_swap_columns_gen (fixed : bool) (md : mode) (m : smat) (i j hint : N) : outcome smat :=
  fd <- sm_fd md m ;;
  if (fixed && (fd <=? i)) || (fd <=? j) then Panic PUnimpl
  else
    valid <- (match md with
              | Checked => lswap (s_valid m) i j
              | Release => Ok (s_valid m)
              end) ;;
    physical_i <- vget (s_l2p_col m) i ;;
    physical_j <- vget (s_l2p_col m) j ;;
    l2p <- vswap (s_l2p_col m) i j ;;
    p2l <- vswap (s_p2l_col m) physical_i physical_j ;;
    Ok (set_col_maps m l2p p2l valid).
Definition sm_swap_columns := sm_swap_columns_gen true.

(* the (key, value) pairs handed to the builder, in the order of the two nested loops *)
Fixpoint index_entries (rows : list svec) (physical_row : N) : list (N * N) :=
  match rows with
  | [] => []
  | r :: t => map (fun physical_col => (u16 physical_col, u32 physical_row)) r
              ++ index_entries t (physical_row + 1)
  end.

(* fixed = true : #[cfg(debug_assertions)] self.debug_indexed_column_valid.fill(true); and the
                  repaired builder
   fixed = false : the code before these two repairs *)
Definition sm_enable_gen (fixed : bool) (md : mode) (m : smat) : outcome smat :=
  let valid := match md with
               | Checked => if fixed then repeat true (length (s_valid m)) else s_valid m
               | Release => s_valid m
               end in
  ix <- ilm_build_gen fixed (s_height m) (index_entries (s_rows m) 0) ;;
  Ok (set_valid (set_index m (Some ix) false) valid).
Definition sm_enable_column_access_acceleration := sm_enable_gen true.

Definition sm_disable_column_access_acceleration (md : mode) (m : smat) : outcome smat :=
  Ok (set_index m None true).

(* the re-spacing loop of hint_column_dense_and_frozen:
     while src > 0 { src -= 1; dest -= 1; de[dest] = de[src];
                     if dest % row_word_width == 1 { dest -= 1; de[dest] = 0 } }
   src decreases by one per iteration: fuel (old length + 1) always suffices *)
Fixpoint respace (md : mode) (fuel : nat) (de : list N) (src dest rww : N)
  : outcome (list N * N * N) :=
  match fuel with
  | O => Panic PFuel
  | S f =>
      if 0 <? src then
        let src1 := src - 1 in
        dest1 <- sub_w md 64 dest 1 ;;
        x <- vget de src1 ;;
        de1 <- vset de dest1 x ;;
        r <- rem_ok dest1 rww ;;
        if r =? 1 then
          dest2 <- sub_w md 64 dest1 1 ;;
          de2 <- vset de1 dest2 0 ;;
          respace md f de2 src1 dest2 rww
        else respace md f de1 src1 dest1 rww
      else Ok (de, src, dest)
  end.

(* one iteration of the last loop of hint_column_dense_and_frozen:
     if let Some(value) = self.sparse_elements[physical_row].remove(physical_i) { set / clear bit 0 } *)
Definition freeze_row (physical_i : N) (mm : smat) (physical_row : N) : outcome smat :=
  r <- lget (s_rows mm) physical_row ;;
  let '(r', removed) := sv_remove r physical_i in
  match removed with
  | Some value =>
      rows <- lset (s_rows mm) physical_row r' ;;
      let '(word, bit) := sm_bit_position mm physical_row 0 in
      x <- vget (s_dense mm) word ;;
      de' <- vset (s_dense mm) word
                  (if value =? 0 then clear_bit x bit else set_bit x bit) ;;
      Ok (set_dense (set_rows mm rows) de')
  | None => Ok mm
  end.

(* fixed = false : the pinned code, `let mut dest = self.dense_elements.len();`
   fixed = true  : the repair (current tree),
                   `let mut dest = if src > 0 { self.dense_elements.len() } else { 0 };` *)
Definition sm_freeze_gen (fixed : bool) (md : mode) (m : smat) (i : N) : outcome smat :=
  fd <- sm_fd md m ;;
  t <- sub_w md 64 fd 1 ;;
  assert_ok (t =? i) ;;;
  assert_ok (negb (s_disabled m)) ;;;
  let m1 := set_nd m (s_nd m + 1) in
  hm1 <- sub_w md 64 (s_height m1) 1 ;;
  p <- mul_w md 64 hm1 (sm_rww m1) ;;
  last_word <- add_w md 64 p (sm_word_offset m1 (s_nd m1 - 1)) ;;
  de <- (if N.of_nat (length (s_dense m1)) <=? last_word then
           (* Append a new set of words, then re-space so that each row has an empty word *)
           let src := N.of_nat (length (s_dense m1)) in
           let de0 := s_dense m1 ++ repeat 0 (N.to_nat (s_height m1)) in
           let dest := if fixed && negb (0 <? src) then 0 else N.of_nat (length de0) in
           r <- respace md (S (length (s_dense m1))) de0 src dest (sm_rww m1) ;;
           let '(de1, src', dest') := r in
           assert_ok (src' =? 0) ;;;
           assert_ok (dest' =? 0) ;;;
           Ok de1
         else Ok (s_dense m1)) ;;
  let m2 := set_dense m1 de in
  physical_i <- vget (s_l2p_col m2) i ;;
  ix <- unwrap (s_index m2) ;;
  lst <- ilm_get ix (u16 physical_i) ;;
  ofold (freeze_row physical_i) lst m2.

Definition sm_hint_column_dense_and_frozen := sm_freeze_gen true.

(* util.rs get_both_indices: the two debug_assert!s, then split_at_mut + two indexings *)
Definition get_both_indices {A} (md : mode) (v : list A) (i j : N) : outcome (A * A) :=
  debug_assert md (negb (i =? j)) ;;;
  debug_assert md (i <? N.of_nat (length v)) ;;;
  debug_assert md (j <? N.of_nat (length v)) ;;;
  if i <? j then
    if N.of_nat (length v) <? j then Panic PIndex
    else a <- lget v i ;; b <- lget v j ;; Ok (a, b)
  else
    if N.of_nat (length v) <? i then Panic PIndex
    else a <- lget v i ;;
         if j <? i then b <- lget v j ;; Ok (a, b) else Panic PIndex.

(* #[cfg(debug_assertions)] fn verify(&self) *)
Definition sm_verify (md : mode) (m : smat) : outcome unit :=
  match md with
  | Release => Ok tt
  | Checked =>
      if s_disabled m then Ok tt
      else
        columns <- unwrap (s_index m) ;;
        ofold (fun (_ : unit) row =>
                 r <- lget (s_rows m) row ;;
                 ofold (fun (_ : unit) (kv : N * N) =>
                          let '(col, value) := kv in
                          if negb (value =? 0) then
                            lst <- ilm_get columns (u16 col) ;;
                            assert_ok (existsb (N.eqb (u32 row)) lst)
                          else Ok tt)
                       (sv_keys_values r) tt)
              (range_from 0 (s_height m)) tt
  end.

Definition sm_add_assign_rows (md : mode) (m : smat) (dest src start_col : N) : outcome smat :=
  if dest =? src then Panic PAssert
  else
    (* assert!(start_col == 0 || start_col == self.width - self.num_dense_columns) *)
    (if start_col =? 0 then Ok tt
     else fd <- sm_fd md m ;; assert_ok (start_col =? fd)) ;;;
    physical_dest <- vget (s_l2p_row m) dest ;;
    physical_src <- vget (s_l2p_row m) src ;;
    (* First handle the dense columns *)
    de <- (if 0 <? s_nd m then
             let '(dest_word, _) := sm_bit_position m physical_dest 0 in
             let '(src_word, _) := sm_bit_position m physical_src 0 in
             ofold (fun de word =>
                      y <- vget de (src_word + word) ;;
                      x <- vget de (dest_word + word) ;;
                      vset de (dest_word + word) (N.lxor x y))
                   (range_from 0 (sm_rww m)) (s_dense m)
           else Ok (s_dense m)) ;;
    let m1 := set_dense m de in
    m2 <- (if start_col =? 0 then
             (* Then the sparse columns *)
             p <- get_both_indices md (s_rows m1) physical_dest physical_src ;;
             let '(dest_row, temp_row) := p in
             assert_ok (s_disabled m1 || (sv_len temp_row =? 1)) ;;;
             let '(dest_row', column_added) := sv_add_assign dest_row temp_row in
             assert_ok (s_disabled m1 || negb column_added) ;;;
             rows <- lset (s_rows m1) physical_dest dest_row' ;;
             let m2 := set_rows m1 rows in
             match md with
             | Checked =>
                 if negb (s_disabled m2) then
                   e <- sv_get_by_raw_index temp_row 0 ;;
                   col <- vget (s_p2l_col m2) (fst e) ;;
                   valid <- lset (s_valid m2) col false ;;
                   Ok (set_valid m2 valid)
                 else Ok m2
             | Release => Ok m2
             end
           else Ok m1) ;;
    sm_verify md m2 ;;;
    Ok m2.

(* for i in (0..self.sparse_elements.len()).rev() { logical_row = p2l[i]; sparse = pop();
     if logical_row < new_height { new_sparse[logical_row] = sparse } }
   [rows_rev] = the not yet popped rows, last first; i = its length - 1 *)
Fixpoint resize_collect (p2l : list N) (new_height : N) (rows_rev : list svec)
  (new_sparse : list (option svec)) : outcome (list (option svec)) :=
  match rows_rev with
  | [] => Ok new_sparse
  | sparse :: t =>
      logical_row <- vget p2l (N.of_nat (length t)) ;;
      ns <- (if logical_row <? new_height then lset new_sparse logical_row (Some sparse)
             else Ok new_sparse) ;;
      resize_collect p2l new_height t ns
  end.

(* for word in 0..self.row_word_width() {
     new_dense[logical_row * rww + word] = self.dense_elements[physical_row * rww + word] } *)
Definition resize_dense_row (m : smat) (nd : list N) (logical_row : N) : outcome (list N) :=
  let rww := sm_rww m in
  physical_row <- vget (s_l2p_row m) logical_row ;;
  ofold (fun nd word =>
           x <- vget (s_dense m) (physical_row * rww + word) ;;
           vset nd (logical_row * rww + word) x)
        (range_from 0 rww) nd.

(* self.logical_row_to_physical[i] = i as u32; self.physical_row_to_logical[i] = i as u32 *)
Definition resize_maps_step (lp : list N * list N) (i : N) : outcome (list N * list N) :=
  let '(l2p, p2l) := lp in
  l2p' <- vset l2p i (u32 i) ;;
  p2l' <- vset p2l i (u32 i) ;;
  Ok (l2p', p2l').

Definition sm_resize (md : mode) (m : smat) (new_height new_width : N) : outcome smat :=
  assert_ok (new_height <=? s_height m) ;;;
  (* Only support same width or removing all the dense columns *)
  columns_to_remove <- sub_w md 64 (s_width m) new_width ;;
  assert_ok ((columns_to_remove =? 0) || (s_nd m <=? columns_to_remove)) ;;;
  if negb (s_disabled m) then Panic PUnimpl
  else
    new_sparse <- resize_collect (s_p2l_row m) new_height (rev (s_rows m))
                                 (repeat None (N.to_nat new_height)) ;;
    r <- (if (columns_to_remove =? 0) && (0 <? s_nd m) then
            let rww := sm_rww m in
            nd <- ofold (resize_dense_row m) (range_from 0 new_height)
                        (repeat 0 (N.to_nat (new_height * rww))) ;;
            Ok (columns_to_remove, nd, s_nd m)
          else Ok (columns_to_remove - s_nd m, [], 0)) ;;
    let '(columns_to_remove, dense, num_dense) := r in
    let l2p0 := firstn (N.to_nat new_height) (s_l2p_row m) in
    let p2l0 := firstn (N.to_nat new_height) (s_p2l_row m) in
    maps <- ofold resize_maps_step (range_from 0 new_height) (l2p0, p2l0) ;;
    let '(l2p, p2l) := maps in
    rows <- omapM unwrap new_sparse ;;
    (* Next remove sparse columns *)
    rows <- (if 0 <? columns_to_remove then
               omapM (sv_retain (fun (e : N * N) =>
                                   c <- vget (s_p2l_col m) (fst e) ;; Ok (c <? u16 new_width)))
                     rows
             else Ok rows) ;;
    let m' := mksm new_height new_width rows dense (s_index m) l2p p2l
                   (s_l2p_col m) (s_p2l_col m) (s_disabled m) (s_valid m) num_dense in
    sm_verify md m' ;;;
    Ok m'.

(* ---------------------------------------------------------------------------------------------- *)
(* Running operation sequences                                                                    *)
(* ---------------------------------------------------------------------------------------------- *)

(* insertion sort on N, for the answers that are compared as sets *)
Fixpoint ins_sorted (x : N) (l : list N) : list N :=
  match l with
  | [] => [x]
  | y :: t => if x <=? y then x :: l else y :: ins_sorted x t
  end.
Definition sortN (l : list N) : list N := fold_right ins_sorted [] l.

(* one operation; answers in the spec's answer type, row / column sets in increasing order *)
Definition sm_step_gen (fixed : bool) (md : mode) (m : smat) (o : op)
  : outcome (smat * option ans) :=
  match o with
  | OSet i j v => m' <- sm_set md m i j v ;; Ok (m', None)
  | OGet i j => v <- sm_get md m i j ;; Ok (m, Some (ABit (nz v)))
  | OSwapRows i j => m' <- sm_swap_rows md m i j ;; Ok (m', None)
  | OSwapCols i j hint => m' <- sm_swap_columns_gen fixed md m i j hint ;; Ok (m', None)
  | OAddRows d s c => m' <- sm_add_assign_rows md m d s c ;; Ok (m', None)
  | OResize nh nw => m' <- sm_resize md m nh nw ;; Ok (m', None)
  | OCountOnes row s e => v <- sm_count_ones md m row s e ;; Ok (m, Some (ANat (N.to_nat v)))
  | ORowIter row s e =>
      l <- sm_get_row_iter md m row s e ;;
      Ok (m, Some (ARow (map (fun c => (N.to_nat c, true))
                             (sortN (map fst (filter (fun cv => nz (snd cv)) l))))))
  | OOnesInCol col s e =>
      l <- sm_get_ones_in_column md m col s e ;; Ok (m, Some (ANats (map N.to_nat (sortN l))))
  | OSubRow row s =>
      p <- sm_get_sub_row_as_octets md m row s ;;
      let '(ws, n) := p in
      bits <- bov_to_octet_vec ws n ;;
      Ok (m, Some (ABits (map nz bits)))
  | ONonZeroCols row s =>
      l <- sm_query_non_zero_columns_gen fixed md m row s ;;
      Ok (m, Some (ANats (map N.to_nat (sortN l))))
  | OFreeze col => m' <- sm_freeze_gen fixed md m col ;; Ok (m', None)
  | OEnableAccel => m' <- sm_enable_gen fixed md m ;; Ok (m', None)
  | ODisableAccel => m' <- sm_disable_column_access_acceleration md m ;; Ok (m', None)
  end.

Definition sm_step := sm_step_gen true.

Fixpoint sm_exec (md : mode) (m : smat) (ops : list op) : outcome (smat * list (option ans)) :=
  match ops with
  | [] => Ok (m, [])
  | o :: t =>
      r <- sm_step md m o ;;
      let '(m1, a) := r in
      r2 <- sm_exec md m1 t ;;
      let '(m2, l) := r2 in
      Ok (m2, a :: l)
  end.

(* ---- entry point for differential testing: the op encoding and output convention of [dm_run]
   (Model/DenseMatrix.v); the answers of opcodes 8, 9, 11 are sorted ascending ---- *)
Fixpoint sm_run_from_gen (fixed : bool) (md : mode) (m : smat) (ops : list (list N))
  : list (list N) :=
  match ops with
  | [] => []
  | l :: t =>
      match decode_op l with
      | None => [[2]]
      | Some o =>
          match sm_step_gen fixed md m o with
          | Panic _ => [[0]]
          | Ok (m1, a) => enc_ans a :: sm_run_from_gen fixed md m1 t
          end
      end
  end.

(* a panic of `new` itself (Checked: its two debug_assert!s) is reported as [[0]] *)
Definition sm_run_gen (fixed : bool) (md : mode) (h w hint : N) (ops : list (list N))
  : list (list N) :=
  match sm_new md h w hint with
  | Ok m => sm_run_from_gen fixed md m ops
  | Panic _ => [[0]]
  end.

(* the current tree (all repairs) / the code before the repairs *)
Definition sm_run_from := sm_run_from_gen true.
Definition sm_run (md : mode) (h w hint : N) (ops : list (list N)) : list (list N) :=
  sm_run_gen true md h w hint ops.
Definition sm_run_pinned (md : mode) (h w hint : N) (ops : list (list N)) : list (list N) :=
  sm_run_gen false md h w hint ops.

(* the same encoding of the abstract machine's answers under the SPARSE admissibility
   (oracle side): [3] at the first operation that is not admissible, [4] if the creation
   arguments are not admissible *)
Fixpoint sp_run_from (st : sstate) (ops : list (list N)) : list (list N) :=
  match ops with
  | [] => []
  | l :: t =>
      match decode_op l with
      | None => [[2]]
      | Some o => if adm_sparse st o
                  then let '(st1, r) := ss_step st o in enc_ans r :: sp_run_from st1 t
                  else [[3]]
      end
  end.
Definition sp_run (h w hint : N) (ops : list (list N)) : list (list N) :=
  if adm_sparse_new h w hint
  then sp_run_from (ss_new (N.to_nat h) (N.to_nat w) (N.to_nat hint)) ops
  else [[4]].
