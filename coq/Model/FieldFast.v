(* Execution-efficient GF(256) multiplication and inverse on bytes, for running solvers and
   certificate checkers inside Coq's VM and in extracted OCaml: the 256 x 256 product table of
   Model/Octet.mulN and the 256 inverses are stored once in binary tries (FMapPositive).
   Proofs/FieldFastProofs.v: fmul = mulN and finv a = divN 1 a on bytes. *)
From Coq Require Import NArith List FMapPositive.
From RQ Require Import Base.ListX Gen.OctetTables Model.Octet.
Import ListNotations.
Open Scope N_scope.

Definition fmul_key (a b : N) : positive := N.succ_pos (a * 256 + b).

Definition fmul_table : PositiveMap.t N :=
  fold_left (fun m a =>
      fold_left (fun m b => PositiveMap.add (fmul_key a b) (mulN a b) m) (rangeN 256) m)
    (rangeN 256) (PositiveMap.empty N).

Definition fmul (a b : N) : N :=
  match PositiveMap.find (fmul_key a b) fmul_table with Some v => v | None => 0 end.

Definition finv_table : PositiveMap.t N :=
  fold_left (fun m a => PositiveMap.add (N.succ_pos a) (divN 1 a) m)
    (rangeN 256) (PositiveMap.empty N).

Definition finv (a : N) : N :=
  match PositiveMap.find (N.succ_pos a) finv_table with Some v => v | None => 0 end.
