(* Model of src/encoder.rs: SourceBlockEncoder (source / repair packets, enc_into), Encoder.
   The intermediate symbols are modelled as THE solution of the encoding system A.C = D computed by
   the reference solver (Spec.Linear.gauss_solve); that the plans the real crate replays produce
   exactly this solution is the certificate theorem of C06 plus the correspondence check. *)
From Coq Require Import NArith List Bool.
From RQ Require Import Base.Outcome Base.Ints Base.ListX Gen.Consts Spec.Linear Spec.Layout
  Model.Octet Model.FieldFast Model.SysConst Model.Tuple Model.CMatrix Model.Layout Model.Slab.
Import ListNotations.
Open Scope N_scope.
Open Scope outcome_scope.

(* create_d: S+H zero symbols, the source symbols, K'-K zero padding symbols *)
Definition create_d (sp : sysparams) (syms : list (list N)) (T : nat) : list (list N) :=
  repeat (repeat 0 T) (N.to_nat (spS sp + spH sp)) ++ syms ++
  repeat (repeat 0 T) (N.to_nat (spK sp) - length syms).

(* gen_intermediate_symbols: solve A.C = D for the ISIs 0..K'-1; `.unwrap()` on failure *)
Definition gen_intermediate_symbols (m : mode) (syms : list (list N)) (T : nat)
  : outcome (list (list N)) :=
  let K := lenN syms in
  sp <- sys_params K ;;
  '(bin, hdpc) <- generate_constraint_matrix m K (rangeN (N.to_nat (spK sp))) ;;
  let A := full_matrix (spS sp) (spH sp) bin hdpc in
  match gauss_solve fmul finv T (N.to_nat (spL sp)) A (create_d sp syms T) with
  | Some C => Ok C
  | None => Panic PUnwrap
  end.

Record sb_encoder := mkSBE {
  sbe_id : N;
  sbe_syms : list (list N);        (* source symbols *)
  sbe_C : list (list N);           (* intermediate symbols *)
  sbe_T : nat
}.

(* SourceBlockEncoder::new / with_encoding_plan *)
Definition sbe_new (m : mode) (id : N) (c : cfg) (block : list N) : outcome sb_encoder :=
  syms <- create_symbols c block ;;
  C <- gen_intermediate_symbols m syms (N.to_nat (cT c)) ;;
  Ok (mkSBE id syms C (N.to_nat (cT c))).

(* enc_into: five asserts (no `d > 0`), then the xor of the indexed intermediate symbols *)
Definition enc_into (m : mode) (K : N) (C : list (list N)) (t : tuple6) : outcome (list N) :=
  W <- num_lt_symbols K ;;
  P <- num_pi_symbols K ;;
  P1 <- calculate_p1 K ;;
  let '(d, a, b, d1, a1, b1) := t in
  assert_ok ((1 <=? a) && (a <? W)) ;;;
  assert_ok (b <? W) ;;;
  assert_ok ((d1 =? 2) || (d1 =? 3)) ;;;
  assert_ok ((1 <=? a1) && (a1 <? P1)) ;;;
  assert_ok (b1 <? P1) ;;;
  first <- nth_ok C (N.to_nat b) ;;
  let fuel := N.to_nat P1 in
  lt <- lt_loop m (N.to_nat (d - 1)) a W b ;;
  b1' <- pi_skip m fuel a1 P P1 b1 ;;
  i0 <- add_w m 32 W b1' ;;
  pis <- pi_loop m fuel (N.to_nat (d1 - 1)) a1 W P P1 b1' ;;
  ofold (fun i acc => s <- nth_ok C (N.to_nat i) ;; Ok (bytes_add acc s)) (lt ++ i0 :: pis) first.

Definition sbe_source_packets (e : sb_encoder) : outcome (list ((N * N) * list N)) :=
  source_packets (sbe_id e) (sbe_syms e).

(* repair_packets(start_repair_symbol_id, packets) as it was before the repair (pinned code): all
   arithmetic in u32 and no check of the window against the 24-bit id space, so that with wrapping
   arithmetic a window starting near 2^32 aliases source identifiers (Props/C18.v,
   C18_pinned_refuted) *)
Definition sbe_repair_packets_pinned (m : mode) (e : sb_encoder) (start n : N)
  : outcome (list ((N * N) * list N)) :=
  let K := lenN (sbe_syms e) in
  Kp <- extended_source_block_symbols K ;;
  start_esi <- add_w m 32 start Kp ;;
  W <- num_lt_symbols K ;;
  J <- systematic_index K ;;
  P1 <- calculate_p1 K ;;
  omapM (fun i =>
           isi <- add_w m 32 start_esi i ;;
           t <- intermediate_tuple_gen true m isi W J P1 ;;
           data <- enc_into m K (sbe_C e) t ;;
           e1 <- add_w m 32 K start ;;
           esi <- add_w m 32 e1 i ;;
           id <- payload_id_new (sbe_id e) esi ;;
           Ok (id, data))
        (rangeN (N.to_nat n)).

(* repair_packets(start_repair_symbol_id, packets), repaired: first
   `assert!(len as u64 + start as u64 + packets as u64 <= 16777216)` (u64: cannot overflow), then
   the unchanged body *)
Definition sbe_repair_packets (m : mode) (e : sb_encoder) (start n : N)
  : outcome (list ((N * N) * list N)) :=
  assert_ok (lenN (sbe_syms e) + start + n <=? ESI_LIMIT) ;;;
  sbe_repair_packets_pinned m e start n.

(* Encoder::new: one block encoder per block, block index `as u8` *)
Definition encoder_new_full (m : mode) (c : cfg) (data : list N) : outcome (list sb_encoder) :=
  offs <- calculate_block_offsets (cF c) (cT c) (cZ c) (lenN data) ;;
  omapM (fun ise => b <- encoder_block data (snd ise) ;; sbe_new m (u8 (fst ise)) c b)
        (enumerate_from 0 offs).

(* Encoder::get_encoded_packets(repair_packets_per_block) *)
Definition get_encoded_packets (m : mode) (encs : list sb_encoder) (n : N)
  : outcome (list ((N * N) * list N)) :=
  pk <- omapM (fun e => s <- sbe_source_packets e ;; r <- sbe_repair_packets m e 0 n ;; Ok (s ++ r)) encs ;;
  Ok (concat pk).
