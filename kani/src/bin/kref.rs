//! kref: evaluates the reference formulas of src/refs.rs on case lines (same format as the Spec oracle
//! cases of the driver) so that they can be compared with the extracted Coq Spec.
use rqkani::refs;
use std::io::{self, BufRead, Write};

fn main() {
    let stdin = io::stdin();
    let out = io::stdout();
    let mut out = io::BufWriter::new(out.lock());
    for line in stdin.lock().lines() {
        let line = line.unwrap();
        let t: Vec<&str> = line.split_whitespace().collect();
        if t.is_empty() {
            continue;
        }
        let a: Vec<u128> = t[1..].iter().map(|x| x.parse().unwrap()).collect();
        let v: Vec<u128> = match t[0] {
            "spec_rand" => vec![refs::rand(a[0], a[1], a[2])],
            "spec_deg" => vec![refs::deg(a[0], a[1])],
            "spec_tuple" => {
                let r = refs::tuple(a[2], a[1], a[3], a[0]);
                vec![r.0, r.1, r.2, r.3, r.4, r.5]
            }
            "spec_oti_valid" => {
                let (v, w) = (refs::oti_valid(a[0], a[1], a[2], a[4]), refs::oti_valid_mul(a[0], a[1], a[2], a[4]));
                vec![if v == w { v as u128 } else { 2 }]
            }
            "spec_pid_wire" => refs::payload_id_wire(a[0], a[1]).iter().map(|&b| b as u128).collect(),
            "spec_oti_wire" => refs::oti_wire(a[0], a[1], a[2], a[3], a[4]).iter().map(|&b| b as u128).collect(),
            "spec_be" => refs::be(a[0] as usize, a[1]).iter().map(|&b| b as u128).collect(),
            "spec_partition" => {
                let r = refs::partition(a[0], a[1]);
                vec![r.0, r.1, r.2, r.3]
            }
            _ => {
                writeln!(out, "0").unwrap();
                continue;
            }
        };
        let s: Vec<String> = v.iter().map(|x| x.to_string()).collect();
        writeln!(out, "1 {}", s.join(" ")).unwrap();
    }
}
