//! Kani harnesses: for ALL inputs of the stated domain the real function of /repo equals the
//! reference formula of coq/Spec.  Each `any` is drawn in a fixed order so that a concrete
//! playback can be mapped back to named inputs (see driver/kani.py).
use crate::refs;
use raptorq::verif_hooks as vh;
use raptorq::{ObjectTransmissionInformation, PayloadId};

// ---------------------------------------------------------------- C13
#[kani::proof]
fn c13_pid_wire() {
    let sbn: u8 = kani::any();
    let esi: u32 = kani::any();
    kani::assume(esi < 16777216);
    let id = PayloadId::new(sbn, esi);
    assert!(id.source_block_number() == sbn && id.encoding_symbol_id() == esi);
    let b = id.serialize();
    let r = refs::payload_id_wire(sbn as u128, esi as u128);
    assert!(b[0] == r[0] && b[1] == r[1] && b[2] == r[2] && b[3] == r[3]);
    let p = PayloadId::deserialize(&b);
    assert!(p == id);
}

#[kani::proof]
fn c13_pid_reserialize() {
    let b: [u8; 4] = kani::any();
    let p = PayloadId::deserialize(&b);
    assert!(p.source_block_number() == b[0]);
    assert!(p.encoding_symbol_id() as u128 == (b[1] as u128) * 65536 + (b[2] as u128) * 256 + b[3] as u128);
    assert!(p.serialize() == b);
}

// Refusal harnesses: the constructor's own panics are EXPECTED failures of these harnesses; the only
// failure that counts is the sentinel assertion after the call (reached = an invalid value was accepted).
// driver/kani.py looks for the sentinel text among the failed checks.
#[kani::proof]
fn c13_pid_refuses() {
    let sbn: u8 = kani::any();
    let esi: u32 = kani::any();
    kani::assume(esi >= 16777216);
    let _ = PayloadId::new(sbn, esi);
    assert!(false, "SENTINEL accepted an encoding symbol id beyond 24 bits");
}

#[kani::proof]
fn c13_oti_wire() {
    let b: [u8; 12] = kani::any();
    let o = ObjectTransmissionInformation::deserialize(&b);
    let f = ((b[0] as u128) << 32) + ((b[1] as u128) << 24) + ((b[2] as u128) << 16) + ((b[3] as u128) << 8) + b[4] as u128;
    let t = (b[6] as u128) * 256 + b[7] as u128;
    let n = (b[9] as u128) * 256 + b[10] as u128;
    assert!(o.transfer_length() as u128 == f);
    assert!(o.symbol_size() as u128 == t);
    assert!(o.source_blocks() == b[8]);
    assert!(o.sub_blocks() as u128 == n);
    assert!(o.symbol_alignment() == b[11]);
    let s = o.serialize();
    let r = refs::oti_wire(f, t, b[8] as u128, n, b[11] as u128);
    let mut k = 0;
    while k < 12 {
        assert!(s[k] == r[k]);
        assert!(s[k] == if k == 5 { 0 } else { b[k] });
        k += 1;
    }
    assert!(ObjectTransmissionInformation::deserialize(&s) == o);
}

// ---------------------------------------------------------------- C19
// ObjectTransmissionInformation::new: both directions (accepts every valid / refuses every invalid configuration)
// require CBMC to reason about two chained 64-bit dividers and do not finish in 7-15 minutes (tried with the
// division-free reference predicate F <= 56403*Z*T as well); C19 stays with its boundary correspondence.

// ---------------------------------------------------------------- C15
// `% m` with a symbolic m is a 32-bit divider on both sides (minutes in CBMC); the modulus is
// therefore fixed to the two values that expose the table look-ups completely: 2^32-1 (the raw xor,
// except for the single value 2^32-1) and 2^20 (the modulus of the degree draw).
#[kani::proof]
fn c15_rand_is_rfc_raw() {
    let y: u32 = kani::any();
    let i: u32 = kani::any();
    kani::assume(i < 256);
    assert!(vh::rand(y, i, 4294967295) as u128 == refs::rand(y as u128, i as u128, 4294967295));
}

#[kani::proof]
fn c15_rand_is_rfc_v() {
    let y: u32 = kani::any();
    let i: u32 = kani::any();
    kani::assume(i < 256);
    assert!(vh::rand(y, i, 1048576) as u128 == refs::rand(y as u128, i as u128, 1048576));
}

#[kani::proof]
#[kani::unwind(32)]
fn c15_deg_is_rfc() {
    let v: u32 = kani::any();
    let w: u32 = kani::any();
    kani::assume(v < 1048576 && w >= 2);
    assert!(vh::deg(v, w) as u128 == refs::deg(v as u128, w as u128));
}

// partition / int_div_ceil: pure 32/64-bit dividers on both sides -- out of reach of CBMC in minutes (tried:
// > 400 s each); they stay with the sampled correspondence of C05.
