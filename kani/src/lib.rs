pub mod refs;
pub mod tables;

#[cfg(kani)]
mod proofs;
