//! Reference formulas transcribed from coq/Spec (Wire.v, Oti.v, Rand.v, Tuple.v, Layout.v).
//! Pure mathematics on u128 (no wrap-around can occur on the stated domains); no special cases.
use crate::tables::{RFC_DEG_F, RFC_V0, RFC_V1, RFC_V2, RFC_V3};

/// Spec.Wire.be w x: the w big-endian base-256 digits of x
pub fn be(w: usize, x: u128) -> Vec<u8> {
    (0..w).map(|k| ((x >> (8 * (w - 1 - k))) % 256) as u8).collect()
}

/// Spec.Wire.payload_id_wire
pub fn payload_id_wire(sbn: u128, esi: u128) -> Vec<u8> {
    let mut v = vec![(sbn % 256) as u8];
    v.extend(be(3, esi));
    v
}

/// Spec.Wire.oti_wire
pub fn oti_wire(f: u128, t: u128, z: u128, n: u128, al: u128) -> Vec<u8> {
    let mut v = be(5, f);
    v.push(0);
    v.extend(be(2, t));
    v.push((z % 256) as u8);
    v.extend(be(2, n));
    v.push((al % 256) as u8);
    v
}

/// Spec.Oti.cdiv
pub fn cdiv(a: u128, b: u128) -> u128 {
    (a + b - 1) / b
}

/// Spec.Oti.oti_validb (T, Z, Al > 0)
pub fn oti_valid(f: u128, t: u128, z: u128, al: u128) -> bool {
    f <= 942574504275 && t % al == 0 && cdiv(cdiv(f, t), z) <= 56403
}

/// the same predicate without division: ceil(ceil(F/T)/Z) <= 56403  <=>  F <= 56403*Z*T  (T, Z > 0);
/// kref checks the two forms against each other and against the Coq Spec
pub fn oti_valid_mul(f: u128, t: u128, z: u128, al: u128) -> bool {
    f <= 942574504275 && t % al == 0 && f <= 56403 * z * t
}

/// Spec.Rand.Rand
pub fn rand(y: u128, i: u128, m: u128) -> u128 {
    let x0 = (y + i) % 256;
    let x1 = (y / 256 + i) % 256;
    let x2 = (y / 65536 + i) % 256;
    let x3 = (y / 16777216 + i) % 256;
    ((RFC_V0[x0 as usize] ^ RFC_V1[x1 as usize] ^ RFC_V2[x2 as usize] ^ RFC_V3[x3 as usize]) as u128) % m
}

/// Spec.Tuple.Deg_index: the d in 1..=30 with f[d-1] <= v < f[d]; 0 if none
pub fn deg_index(v: u128) -> u128 {
    let mut d = 1;
    while d <= 30 {
        if (RFC_DEG_F[d - 1] as u128) <= v && v < (RFC_DEG_F[d] as u128) {
            return d as u128;
        }
        d += 1;
    }
    0
}

/// Spec.Tuple.Deg (W >= 2)
pub fn deg(v: u128, w: u128) -> u128 {
    core::cmp::min(deg_index(v), w - 2)
}

/// Spec.Tuple.Tuple
pub fn tuple(j: u128, w: u128, p1: u128, x: u128) -> (u128, u128, u128, u128, u128, u128) {
    let mut a_ = 53591 + j * 997;
    if a_ % 2 == 0 {
        a_ += 1;
    }
    let b_ = 10267 * (j + 1);
    let y = (b_ + x * a_) % 4294967296;
    let v = rand(y, 0, 1048576);
    let d = deg(v, w);
    let a = 1 + rand(y, 1, w - 1);
    let b = rand(y, 2, w);
    let d1 = if d < 4 { 2 + rand(x, 3, 2) } else { 2 };
    let a1 = 1 + rand(x, 4, p1 - 1);
    let b1 = rand(x, 5, p1);
    (d, a, b, d1, a1, b1)
}

/// Spec.Layout.Partition (J > 0)
pub fn partition(i: u128, j: u128) -> (u128, u128, u128, u128) {
    let il = (i + (j - 1)) / j;
    let is = i / j;
    let jl = i - is * j;
    let js = j - jl;
    (il, is, jl, js)
}
