//! Schedule-controlled runs of the process-wide encoding plan cache (C17).
//! A schedule is a list of (thread, kind, key): kind 0 = start a request for `key` on `thread`
//! (runs the first critical section; on a miss also the unlocked generation, then parks in the
//! between-sections hook), kind 1 = "generate" (already happened, unobservable: no-op),
//! kind 2 = let the parked thread run its second critical section and return,
//! kind 3 = the parked request dies between its critical sections (the hook panics: no lock is held there).
//! After every step the cache is snapshotted.  Row per step:
//!   [ret_flag, returned plan's symbol count or 0, |order|, order..., |plans|, sorted keys...]
use raptorq::verif_hooks::encoder as enc;
use std::cell::RefCell;
use std::collections::HashMap;
use std::sync::mpsc::{Receiver, Sender, channel};
use std::sync::{Arc, Condvar, Mutex};

enum Event {
    AtHook,
    // the returned plan is handed to the driver, which keeps it alive until the end of the trace
    // (callers hold on to plans: an eviction policy must not depend on that)
    Done(u16, std::sync::Arc<raptorq::SourceBlockEncodingPlan>),
    Aborted,
}

struct Gate {
    open: Mutex<bool>,
    cv: Condvar,
    abort: std::sync::atomic::AtomicBool,
}

thread_local! {
    static SLOT: RefCell<Option<(Arc<Gate>, Sender<Event>)>> = const { RefCell::new(None) };
}

fn hook(_k: u16) {
    SLOT.with(|s| {
        if let Some((gate, tx)) = s.borrow().as_ref() {
            tx.send(Event::AtHook).unwrap();
            let mut open = gate.open.lock().unwrap();
            while !*open {
                open = gate.cv.wait(open).unwrap();
            }
            *open = false;
            drop(open);
            if gate.abort.swap(false, std::sync::atomic::Ordering::SeqCst) {
                panic!("scheduled abort of a request between its critical sections");
            }
        }
    });
}

struct Worker {
    cmd: Sender<u16>,
    events: Receiver<Event>,
    gate: Arc<Gate>,
    parked: bool,
    // the model's Generate step has been scheduled for the parked request (the real generation
    // already happened before the hook; it is unobservable)
    generated: bool,
}

fn spawn_worker() -> Worker {
    let (cmd_tx, cmd_rx) = channel::<u16>();
    let (ev_tx, ev_rx) = channel::<Event>();
    let gate = Arc::new(Gate { open: Mutex::new(false), cv: Condvar::new(), abort: std::sync::atomic::AtomicBool::new(false) });
    let g2 = gate.clone();
    std::thread::spawn(move || {
        SLOT.with(|s| *s.borrow_mut() = Some((g2, ev_tx.clone())));
        while let Ok(k) = cmd_rx.recv() {
            match std::panic::catch_unwind(|| enc::get_or_generate_plan(k)) {
                Ok(plan) => ev_tx.send(Event::Done(enc::plan_symbol_count(&plan), plan)).unwrap(),
                Err(_) => ev_tx.send(Event::Aborted).unwrap(),
            }
        }
    });
    Worker { cmd: cmd_tx, events: ev_rx, gate, parked: false, generated: false }
}

fn snapshot(row: &mut Vec<u64>) {
    let (order, keys, counts) = enc::cache_snapshot();
    assert_eq!(keys, counts, "a plan is stored under a key different from its symbol count");
    row.push(order.len() as u64);
    row.extend(order.iter().map(|&k| k as u64));
    row.push(keys.len() as u64);
    row.extend(keys.iter().map(|&k| k as u64));
}

pub fn trace(a: &[u64]) -> Vec<u64> {
    // the cache is process-wide: one trace at a time
    static SERIAL: Mutex<()> = Mutex::new(());
    let _g = SERIAL.lock().unwrap_or_else(|p| p.into_inner());
    enc::set_between_sections_hook(Some(hook));
    enc::cache_clear();
    let mut workers: HashMap<u64, Worker> = HashMap::new();
    let mut held = vec![];
    let mut out = vec![];
    for step in a.chunks(3) {
        let (t, kind, k) = (step[0], step[1], step[2]);
        let w = workers.entry(t).or_insert_with(spawn_worker);
        let mut row = vec![0u64, 0u64];
        match kind {
            0 if !w.parked => {
                w.cmd.send(k as u16).unwrap();
                match w.events.recv().unwrap() {
                    Event::AtHook => w.parked = true,
                    Event::Done(c, plan) => {
                        held.push(plan);
                        row[0] = 1;
                        row[1] = c as u64;
                    }
                    Event::Aborted => panic!("a request died in its first critical section"),
                }
            }
            3 if w.parked => {
                w.gate.abort.store(true, std::sync::atomic::Ordering::SeqCst);
                {
                    let mut open = w.gate.open.lock().unwrap();
                    *open = true;
                    w.gate.cv.notify_all();
                }
                match w.events.recv().unwrap() {
                    Event::Aborted => {
                        w.parked = false;
                        w.generated = false;
                    }
                    _ => panic!("a scheduled abort did not abort the request"),
                }
            }
            1 if w.parked => w.generated = true,
            2 if w.parked && w.generated => {
                {
                    let mut open = w.gate.open.lock().unwrap();
                    *open = true;
                    w.gate.cv.notify_all();
                }
                match w.events.recv().unwrap() {
                    Event::Done(c, plan) => {
                        held.push(plan);
                        row[0] = 1;
                        row[1] = c as u64;
                        w.parked = false;
                        w.generated = false;
                    }
                    Event::AtHook => panic!("thread reached the hook twice in one request"),
                    Event::Aborted => panic!("a request died in its second critical section"),
                }
            }
            _ => {}
        }
        snapshot(&mut row);
        out.extend(row);
    }
    // release anything still parked so that worker threads can finish
    for w in workers.values_mut() {
        if w.parked {
            let mut open = w.gate.open.lock().unwrap();
            *open = true;
            w.gate.cv.notify_all();
            drop(open);
            let _ = w.events.recv();
        }
    }
    enc::set_between_sections_hook(None);
    enc::cache_clear();
    drop(held);
    out
}

/// [k_bad, schedule...]: first a request that the library refuses (a symbol count beyond the largest block size,
/// or any request that panics) is issued on a throwaway thread -- its panic must stay that thread's own business --
/// then the schedule runs as in `trace`.  Output: [1 if the refused request panicked else 0, trace output...].
pub fn trace_after_refusal(a: &[u64]) -> Vec<u64> {
    let k_bad = a[0] as u16;
    let refused = std::thread::spawn(move || {
        let _ = enc::get_or_generate_plan(k_bad);
    })
    .join()
    .is_err();
    let mut out = vec![refused as u64];
    out.extend(trace(&a[1..]));
    out
}
