//! End-to-end encode / decode cases (C01, C02, C04, C05, C06, C08, C18).
use raptorq::verif_hooks as vh;
use raptorq::{
    Decoder, Encoder, EncodingPacket, ObjectTransmissionInformation, PayloadId, SourceBlockDecoder,
    SourceBlockEncoder, SourceBlockEncodingPlan,
};

fn cfg(a: &[u64]) -> ObjectTransmissionInformation {
    ObjectTransmissionInformation::new(a[0], a[1] as u16, a[2] as u8, a[3] as u16, a[4] as u8)
}

fn bytes(a: &[u64]) -> Vec<u8> {
    a.iter().map(|&b| b as u8).collect()
}

fn packet_of(enc: &Encoder, sbn: usize, esi: u32) -> EncodingPacket {
    let b = &enc.get_block_encoders()[sbn];
    let k = b.source_packets().len() as u32;
    if esi < k {
        b.source_packets()[esi as usize].clone()
    } else {
        b.repair_packets(esi - k, 1).pop().unwrap()
    }
}

fn push_packet(out: &mut Vec<u64>, p: &EncodingPacket) {
    out.push(p.payload_id().source_block_number() as u64);
    out.push(p.payload_id().encoding_symbol_id() as u64);
    out.extend(p.data().iter().map(|&b| b as u64));
}

/// [F,T,Z,N,Al, nrep, data...] -> every packet of get_encoded_packets(nrep): sbn esi payload(T)
pub fn enc_packets(a: &[u64]) -> Vec<u64> {
    let c = cfg(a);
    let data = bytes(&a[6..]);
    let enc = Encoder::new(&data, c);
    let mut out = vec![];
    for p in enc.get_encoded_packets(a[5] as u32) {
        push_packet(&mut out, &p);
    }
    out
}

/// [F,T,Z,N,Al, nrep, data...] -> the packets of every block from an independently constructed
/// SourceBlockEncoder::new(sbn, config, block bytes) (block ranges by Partition[Kt, Z], the last block padded
/// with zeros), in the order of Encoder::get_encoded_packets: comparable with enc_packets token by token
pub fn enc_packets_per_block(a: &[u64]) -> Vec<u64> {
    let c = cfg(a);
    let data = bytes(&a[6..]);
    let t = a[1] as usize;
    let kt = data.len().div_ceil(t);
    let z = a[2] as usize;
    let (kl, ks, zl) = (kt.div_ceil(z), kt / z, kt - (kt / z) * z);
    let mut out = vec![];
    let mut off = 0usize;
    for sbn in 0..z {
        let k = if sbn < zl { kl } else { ks };
        let mut blk = vec![0u8; k * t];
        let end = (off + k * t).min(data.len());
        blk[..end - off].copy_from_slice(&data[off..end]);
        off += k * t;
        let e = SourceBlockEncoder::new(sbn as u8, &c, &blk);
        for p in e.source_packets().iter().chain(e.repair_packets(0, a[5] as u32).iter()) {
            push_packet(&mut out, p);
        }
    }
    out
}

/// [F,T,Z,N,Al, rot, data...] -> all source packets (rotated by rot) through Decoder::decode; result
pub fn layout_roundtrip(a: &[u64]) -> Vec<u64> {
    let c = cfg(a);
    let data = bytes(&a[6..]);
    let enc = Encoder::new(&data, c);
    let mut pk = enc.get_encoded_packets(0);
    let r = (a[5] as usize) % (pk.len() + 1);
    pk.rotate_left(r);
    let mut dec = Decoder::new(c);
    let mut res = None;
    for p in pk {
        res = dec.decode(p);
    }
    match res {
        Some(b) => std::iter::once(1u64).chain(b.iter().map(|&x| x as u64)).collect(),
        None => vec![0],
    }
}

/// as layout_roundtrip, through add_new_packet / get_result (answer after every packet: once Some, it must stay
/// the same value); [F,T,Z,N,Al, rot, data...] -> 1 bytes... | 0 | 9 (the answer changed)
pub fn layout_roundtrip_api(a: &[u64]) -> Vec<u64> {
    let c = cfg(a);
    let data = bytes(&a[6..]);
    let enc = Encoder::new(&data, c);
    let mut pk = enc.get_encoded_packets(0);
    let r = (a[5] as usize) % (pk.len() + 1);
    pk.rotate_left(r);
    let mut dec = Decoder::new(c);
    let mut res: Option<Vec<u8>> = None;
    for p in pk {
        dec.add_new_packet(p);
        let now = dec.get_result();
        if res.is_some() && now != res {
            return vec![9];
        }
        res = now;
    }
    match res {
        Some(b) => std::iter::once(1u64).chain(b.iter().map(|&x| x as u64)).collect(),
        None => vec![0],
    }
}

/// Decoder for an object too large to materialise: [F,T,Z,N,Al, n, (sbn, esi)*n] -> per packet 0 (None) or
/// 1 (Some) followed by the length of the returned object; the payload of packet (sbn, esi) is T bytes
/// (sbn * 31 + esi * 7 + j) mod 256.  With fewer than ceil(F/T) packets every answer must be None.
pub fn dec_feed(a: &[u64]) -> Vec<u64> {
    let c = ObjectTransmissionInformation::new(a[0], a[1] as u16, a[2] as u8, a[3] as u16, a[4] as u8);
    let n = a[5] as usize;
    let mut dec = Decoder::new(c);
    let mut out = vec![];
    for s in a[6..6 + 2 * n].chunks(2) {
        let payload: Vec<u8> = (0..a[1]).map(|j| ((s[0] * 31 + s[1] * 7 + j) % 256) as u8).collect();
        let p = EncodingPacket::new(PayloadId::new(s[0] as u8, s[1] as u32), payload);
        match dec.decode(p) {
            None => out.push(0),
            Some(b) => {
                out.push(1);
                out.push(b.len() as u64);
            }
        }
    }
    out
}

/// [F,T,Z,N,Al, block, start, n, data...] -> repair_packets(start, n) of that block
pub fn repair_window(a: &[u64]) -> Vec<u64> {
    let c = cfg(a);
    let data = bytes(&a[8..]);
    let enc = Encoder::new(&data, c);
    let mut out = vec![];
    for p in enc.get_block_encoders()[a[5] as usize].repair_packets(a[6] as u32, a[7] as u32) {
        push_packet(&mut out, &p);
    }
    out
}

/// [F,T,Z,N,Al, thr, nsteps, (kind,sbn,esi)*nsteps, data...]
/// kind 0: Decoder::decode(packet); kind 1: add_new_packet + get_result; kind 2: continue on a clone
/// (then decode(packet)).  Output: one flag per step (0 None, 1 Some, 9 Some but different from an
/// earlier Some), then the final result's bytes if any.
pub fn codec_hist(a: &[u64]) -> Vec<u64> {
    let c = cfg(a);
    let thr = a[5] as u32;
    let n = a[6] as usize;
    let steps = &a[7..7 + 3 * n];
    let data = bytes(&a[7 + 3 * n..]);
    let enc = Encoder::new(&data, c);
    let mut dec = Decoder::new(c);
    if thr != 0 {
        dec.set_sparse_threshold(thr - 1);
    }
    let mut out = vec![];
    let mut first: Option<Vec<u8>> = None;
    let mut last: Option<Vec<u8>> = None;
    for s in steps.chunks(3) {
        let p = packet_of(&enc, s[1] as usize, s[2] as u32);
        let r = match s[0] {
            0 => dec.decode(p),
            1 => {
                dec.add_new_packet(p);
                dec.get_result()
            }
            _ => {
                let mut d2 = dec.clone();
                let r = d2.decode(p);
                dec = d2;
                r
            }
        };
        match &r {
            None => out.push(0),
            Some(b) => {
                if first.is_none() {
                    first = Some(b.clone());
                }
                out.push(if first.as_ref() == Some(b) { 1 } else { 9 });
            }
        }
        last = r;
    }
    if let Some(b) = last {
        out.extend(b.iter().map(|&x| x as u64));
    }
    out
}

/// Block-level API with batches.
/// [K,T,Nsub,Al, thr, nbatches, (len, esis...)*, data(K*T)...] -> flag per batch, then final bytes
pub fn sbd_hist(a: &[u64]) -> Vec<u64> {
    let (k, t) = (a[0], a[1]);
    let c = ObjectTransmissionInformation::new(k * t, t as u16, 1, a[2] as u16, a[3] as u8);
    let thr = a[4] as u32;
    let nb = a[5] as usize;
    let mut i = 6;
    let mut batches = vec![];
    for _ in 0..nb {
        let len = a[i] as usize;
        batches.push(a[i + 1..i + 1 + len].to_vec());
        i += 1 + len;
    }
    let data = bytes(&a[i..]);
    let enc = SourceBlockEncoder::new(0, &c, &data);
    let src = enc.source_packets();
    let mut dec = SourceBlockDecoder::new(0, &c, k * t);
    if thr != 0 {
        dec.set_sparse_threshold(thr - 1);
    }
    let mut out = vec![];
    let mut first: Option<Vec<u8>> = None;
    let mut last = None;
    for b in batches {
        let pk: Vec<EncodingPacket> = b
            .iter()
            .map(|&esi| {
                if esi < k {
                    src[esi as usize].clone()
                } else {
                    enc.repair_packets((esi - k) as u32, 1).pop().unwrap()
                }
            })
            .collect();
        let r = dec.decode(pk);
        match &r {
            None => out.push(0),
            Some(b) => {
                if first.is_none() {
                    first = Some(b.clone());
                }
                out.push(if first.as_ref() == Some(b) { 1 } else { 9 });
            }
        }
        last = r;
    }
    if let Some(b) = last {
        out.extend(b.iter().map(|&x| x as u64));
    }
    out
}

/// [T, variant, thr, data(K*T)...] -> all L intermediate symbols (L*T bytes)
/// variant 0: SourceBlockEncoder::new (plan cache); 1: with_encoding_plan(generate(K));
/// 2: solved directly with sparse threshold `thr` (no plan)
pub fn intermediate(a: &[u64]) -> Vec<u64> {
    let t = a[0];
    let data = bytes(&a[3..]);
    let k = data.len() as u64 / t;
    let c = ObjectTransmissionInformation::new(k * t, t as u16, 1, 1, 1);
    let enc = match a[1] {
        0 => SourceBlockEncoder::new(0, &c, &data),
        1 => {
            let plan = SourceBlockEncodingPlan::generate(k as u16);
            SourceBlockEncoder::with_encoding_plan(0, &c, &data, &plan)
        }
        _ => vh::encoder::new_unplanned(0, &c, &data, a[2] as u32),
    };
    vh::encoder::intermediate_symbols(&enc)
        .iter()
        .flat_map(|s| s.iter().map(|&b| b as u64))
        .collect()
}

/// [T, nrep, data(K*T)...] -> 1 if the encoders built by SourceBlockEncoder::new (plan cache),
/// with_encoding_plan(generate(K)) and with_encoding_plan(a second generate(K)) are equal and produce equal
/// source + repair packets, else 0
pub fn plan_variants(a: &[u64]) -> Vec<u64> {
    let t = a[0];
    let data = bytes(&a[2..]);
    let k = data.len() as u64 / t;
    let c = ObjectTransmissionInformation::new(k * t, t as u16, 1, 1, 1);
    let e1 = SourceBlockEncoder::new(0, &c, &data);
    let p2 = SourceBlockEncodingPlan::generate(k as u16);
    let p3 = SourceBlockEncodingPlan::generate(k as u16);
    let e2 = SourceBlockEncoder::with_encoding_plan(0, &c, &data, &p2);
    let e3 = SourceBlockEncoder::with_encoding_plan(0, &c, &data, &p3);
    let same = e1 == e2
        && e2 == e3
        && p2 == p3
        && e1.repair_packets(0, a[1] as u32) == e2.repair_packets(0, a[1] as u32)
        && e1.repair_packets(5, a[1] as u32) == e3.repair_packets(5, a[1] as u32)
        && e1.source_packets() == e3.source_packets();
    vec![u64::from(same)]
}

/// [memory, mtu, drop_every, data...] -> EncoderBuilder with the given budget and packet size: the derived
/// configuration (F,T,Z,N,Al), then 1 if a Decoder built from it returns exactly the data when every
/// `drop_every`-th source packet is replaced by repair packets (0 = all source packets), else 0
pub fn builder_roundtrip(a: &[u64]) -> Vec<u64> {
    let data = bytes(&a[3..]);
    let mut b = raptorq::EncoderBuilder::new();
    b.set_decoder_memory_requirement(a[0]);
    b.set_max_packet_size(a[1] as u16);
    let enc = b.build(&data);
    let c = enc.get_config();
    let mut out = vec![c.transfer_length(), c.symbol_size() as u64, c.source_blocks() as u64, c.sub_blocks() as u64, c.symbol_alignment() as u64];
    let mut dec = Decoder::new(c);
    let mut res = None;
    let every = a[2] as usize;
    let kmax = enc.get_block_encoders().iter().map(|b| b.source_packets().len()).max().unwrap_or(0) as u32;
    for (i, p) in enc.get_encoded_packets(if every == 0 { 0 } else { kmax / 2 + 4 }).into_iter().enumerate() {
        let esi = p.payload_id().encoding_symbol_id() as usize;
        let k = enc.get_block_encoders()[p.payload_id().source_block_number() as usize].source_packets().len();
        if every != 0 && esi < k && esi % every == 0 && i > 0 {
            continue;
        }
        res = dec.decode(p);
    }
    out.push(u64::from(res.as_deref() == Some(&data[..])));
    out
}

/// [T, variant, thr, nrep, data(K*T)...] -> source + repair packets of a block encoder built by
/// variant 0: SourceBlockEncoder::new (plan cache, warm or cold); 1: with_encoding_plan(generate(K));
/// 2: solved directly with sparse threshold thr (no plan); 3: new() after clearing the plan cache
pub fn variant_packets(a: &[u64]) -> Vec<u64> {
    let t = a[0];
    let data = bytes(&a[4..]);
    let k = data.len() as u64 / t;
    let c = ObjectTransmissionInformation::new(k * t, t as u16, 1, 1, 1);
    let enc = match a[1] {
        0 => SourceBlockEncoder::new(0, &c, &data),
        1 => {
            let plan = SourceBlockEncodingPlan::generate(k as u16);
            SourceBlockEncoder::with_encoding_plan(0, &c, &data, &plan)
        }
        2 => vh::encoder::new_unplanned(0, &c, &data, a[2] as u32),
        _ => {
            vh::encoder::cache_clear();
            SourceBlockEncoder::new(0, &c, &data)
        }
    };
    let mut out = vec![];
    for p in enc.source_packets().iter().chain(enc.repair_packets(0, a[3] as u32).iter()) {
        push_packet(&mut out, p);
    }
    out
}

/// [K] -> the operation list of SourceBlockEncodingPlan::generate(K):
/// per op: 1 dest src | 2 dest scalar | 3 dest src scalar | 4 len order...
pub fn plan_ops(a: &[u64]) -> Vec<u64> {
    let plan = SourceBlockEncodingPlan::generate(a[0] as u16);
    encode_ops(vh::encoder::plan_operations(&plan))
}

/// [K, thr] -> the operation list of a direct solve of the encoding system for K symbols with the given
/// sparse threshold (0 = sparse back-end, huge = dense back-end), on dummy one-byte symbols
pub fn solve_ops(a: &[u64]) -> Vec<u64> {
    let symbols = vec![raptorq::Symbol::new(vec![0]); a[0] as usize];
    let (_, ops) = vh::encoder::gen_intermediate_symbols_raw(&symbols, 1, a[1] as u32);
    encode_ops(&ops.unwrap())
}

/// [K, no_hdpc, isis...] -> the operation list of the real solver (dense back-end) on the decoder-side system
/// for the received ISI list: `1 ops...` if it solves, `0` if it reports a singular system
pub fn dec_ops(a: &[u64]) -> Vec<u64> {
    use raptorq::{DenseBinaryMatrix, SymbolSlab};
    let k = a[0] as u32;
    let isis: Vec<u32> = a[2..].iter().map(|&x| x as u32).collect();
    let (_, ops) = if a[1] == 0 {
        let (m, hdpc) = raptorq::generate_constraint_matrix::<DenseBinaryMatrix>(k, &isis);
        let rows = {
            use raptorq::BinaryMatrix;
            m.height()
        };
        vh::fused_inverse_mul_symbols(m, hdpc, SymbolSlab::with_zeros(rows, 1), k)
    } else {
        let m = vh::generate_constraint_matrix_no_hdpc::<DenseBinaryMatrix>(k, &isis);
        let rows = {
            use raptorq::BinaryMatrix;
            m.height()
        };
        vh::fused_inverse_mul_symbols_no_hdpc(m, SymbolSlab::with_zeros(rows, 1), k)
    };
    match ops {
        Some(o) => std::iter::once(1u64).chain(encode_ops(&o)).collect(),
        None => vec![0],
    }
}

/// [K, rows...] -> structure of the encoding constraint matrix (sparse back-end, ISIs 0..K'-1): for each
/// requested row of the binary matrix the number of ones and their columns in ascending order
pub fn cm_rows(a: &[u64]) -> Vec<u64> {
    use raptorq::{BinaryMatrix, Octet, SparseBinaryMatrix};
    let k = a[0] as u32;
    let kp = raptorq::extended_source_block_symbols(k);
    let isis: Vec<u32> = (0..kp).collect();
    let (m, hdpc) = raptorq::generate_constraint_matrix::<SparseBinaryMatrix>(k, &isis);
    let p = vh::num_pi_symbols(k) as usize;
    let fd = m.width() - p;
    let first_hdpc = vh::num_ldpc_symbols(k) as usize;
    let mut out = vec![];
    for &r in &a[1..] {
        let r = r as usize;
        if r >= first_hdpc && r < first_hdpc + hdpc.height() {
            out.push(0);
            continue;
        }
        let mut cols: Vec<u64> = m.get_row_iter(r, 0, fd).filter(|(_, v)| *v != Octet::zero()).map(|(c, _)| c as u64).collect();
        cols.extend(m.query_non_zero_columns(r, fd).iter().map(|&c| c as u64));
        cols.sort_unstable();
        out.push(cols.len() as u64);
        out.extend(cols);
    }
    out
}

pub fn encode_ops(ops: &[vh::SymbolOps]) -> Vec<u64> {
    let mut out = vec![];
    for op in ops {
        match op {
            vh::SymbolOps::AddAssign { dest, src } => out.extend([1, *dest as u64, *src as u64]),
            vh::SymbolOps::MulAssign { dest, scalar } => out.extend([2, *dest as u64, scalar.byte() as u64]),
            vh::SymbolOps::FMA { dest, src, scalar } => out.extend([3, *dest as u64, *src as u64, scalar.byte() as u64]),
            vh::SymbolOps::Reorder { order } => {
                out.push(4);
                out.push(order.len() as u64);
                out.extend(order.iter().map(|&x| x as u64));
            }
        }
    }
    out
}

/// [T, count, nread, nopvals, opvals..., data(count*T)...] -> symbols 0..nread-1 read through the mapping
pub fn slab_replay(a: &[u64]) -> Vec<u64> {
    let (t, count, nread, nv) = (a[0] as usize, a[1] as usize, a[2] as usize, a[3] as usize);
    let ops = decode_ops(&a[4..4 + nv]);
    let data = bytes(&a[4 + nv..]);
    let syms: Vec<raptorq::Symbol> = data.chunks(t.max(1)).take(count).map(|c| raptorq::Symbol::new(c.to_vec())).collect();
    let mut slab = raptorq::SymbolSlab::from_symbols(syms, t);
    for op in ops.iter() {
        vh::perform_op(op, &mut slab);
    }
    let mut out = vec![];
    for i in 0..nread {
        out.extend(slab.get(i).iter().map(|&b| b as u64));
    }
    out
}

pub fn decode_ops(v: &[u64]) -> Vec<vh::SymbolOps> {
    let mut ops = vec![];
    let mut i = 0;
    while i < v.len() {
        match v[i] {
            1 => {
                ops.push(vh::SymbolOps::AddAssign { dest: v[i + 1] as usize, src: v[i + 2] as usize });
                i += 3;
            }
            2 => {
                ops.push(vh::SymbolOps::MulAssign { dest: v[i + 1] as usize, scalar: raptorq::Octet::new(v[i + 2] as u8) });
                i += 3;
            }
            3 => {
                ops.push(vh::SymbolOps::FMA { dest: v[i + 1] as usize, src: v[i + 2] as usize, scalar: raptorq::Octet::new(v[i + 3] as u8) });
                i += 4;
            }
            _ => {
                let n = v[i + 1] as usize;
                ops.push(vh::SymbolOps::Reorder { order: v[i + 2..i + 2 + n].iter().map(|&x| x as usize).collect() });
                i += 2 + n;
            }
        }
    }
    ops
}

#[allow(dead_code)]
/// Column independence on big symbols, evaluated inside the harness (no multi-megabyte case lines):
/// [K, T, nrepair, seed, col...]: the block's K*T bytes are drawn from `seed` (splitmix64); it is encoded at symbol
/// size T and, for every listed byte column j, the column alone is encoded at symbol size 1; answer per column:
/// 1 if byte j of every source and repair packet at size T equals the one-byte packet of the column, else 0.
pub fn col_indep(a: &[u64]) -> Vec<u64> {
    let (k, t, nrep, mut st) = (a[0] as usize, a[1] as usize, a[2] as u32, a[3]);
    let mut next = || {
        st = st.wrapping_add(0x9E3779B97F4A7C15);
        let mut z = st;
        z = (z ^ (z >> 30)).wrapping_mul(0xBF58476D1CE4E5B9);
        z = (z ^ (z >> 27)).wrapping_mul(0x94D049BB133111EB);
        z ^ (z >> 31)
    };
    let data: Vec<u8> = (0..k * t).map(|_| (next() >> 24) as u8).collect();
    let c = ObjectTransmissionInformation::new((k * t) as u64, t as u16, 1, 1, 1);
    let enc = SourceBlockEncoder::new(0, &c, &data);
    let mut pk = enc.source_packets();
    pk.extend(enc.repair_packets(0, nrep));
    let mut out = vec![];
    for &j in &a[4..] {
        let j = j as usize;
        let col: Vec<u8> = (0..k).map(|i| data[i * t + j]).collect();
        let c1 = ObjectTransmissionInformation::new(k as u64, 1, 1, 1, 1);
        let e1 = SourceBlockEncoder::new(0, &c1, &col);
        let mut p1 = e1.source_packets();
        p1.extend(e1.repair_packets(0, nrep));
        let ok = pk.len() == p1.len() && pk.iter().zip(p1.iter()).all(|(a, b)| a.payload_id() == b.payload_id() && a.data()[j] == b.data()[0]);
        out.push(ok as u64);
    }
    out
}

pub fn unused(_: PayloadId) {}
