//! Direct runs of every private byte kernel (C11) with canary bytes around the buffers (C12 validation).
use raptorq::Octet;
use raptorq::verif_hooks as vh;

const GUARD: usize = 64;
const CANARY: u8 = 0xA5;

/// a buffer whose payload starts at an address congruent to `align` modulo 64, with guard zones
struct Guarded {
    raw: Vec<u8>,
    off: usize,
    len: usize,
}

impl Guarded {
    fn new(data: &[u8], align: usize) -> Guarded {
        let mut raw = vec![CANARY; data.len() + 2 * GUARD + 64];
        let base = raw.as_ptr() as usize;
        let mut off = GUARD;
        while (base + off) % 64 != align % 64 {
            off += 1;
        }
        raw[off..off + data.len()].copy_from_slice(data);
        Guarded { raw, off, len: data.len() }
    }
    fn slice(&mut self) -> &mut [u8] {
        &mut self.raw[self.off..self.off + self.len]
    }
    fn intact(&self) -> bool {
        self.raw[..self.off].iter().all(|&b| b == CANARY) && self.raw[self.off + self.len..].iter().all(|&b| b == CANARY)
    }
}

fn isa_name(i: u64) -> &'static str {
    match i {
        0 => "avx512",
        1 => "avx2",
        2 => "ssse3",
        _ => "fallback",
    }
}

fn finish(mut out: Vec<u64>, bufs: &[&Guarded]) -> Vec<u64> {
    out.push(u64::from(bufs.iter().all(|g| g.intact())));
    out
}

fn b(a: &[u64]) -> Vec<u8> {
    a.iter().map(|&x| x as u8).collect()
}

/// [isa, align, len, dest(len), src(len)]
pub fn k_add(a: &[u64]) -> Vec<u64> {
    let len = a[2] as usize;
    let mut d = Guarded::new(&b(&a[3..3 + len]), a[1] as usize);
    let mut s = Guarded::new(&b(&a[3 + len..]), (a[1] as usize + 17) % 64);
    let src = s.slice().to_vec();
    if a[0] == 4 {
        vh::add_assign(d.slice(), &src);
    } else {
        vh::kernels::add_assign_with(isa_name(a[0]), d.slice(), s.slice());
    }
    let out = d.slice().iter().map(|&x| x as u64).collect();
    finish(out, &[&d, &s])
}

/// [isa, align, c, len, dest(len)]
pub fn k_mul(a: &[u64]) -> Vec<u64> {
    let len = a[3] as usize;
    let mut d = Guarded::new(&b(&a[4..4 + len]), a[1] as usize);
    let c = Octet::new(a[2] as u8);
    if a[0] == 4 {
        vh::mulassign_scalar(d.slice(), &c);
    } else {
        vh::kernels::mulassign_scalar_with(isa_name(a[0]), d.slice(), &c);
    }
    let out = d.slice().iter().map(|&x| x as u64).collect();
    finish(out, &[&d])
}

/// [isa, align, c, len, dest(len), src(len)]
pub fn k_fma(a: &[u64]) -> Vec<u64> {
    let len = a[3] as usize;
    let mut d = Guarded::new(&b(&a[4..4 + len]), a[1] as usize);
    let mut s = Guarded::new(&b(&a[4 + len..]), (a[1] as usize + 33) % 64);
    let c = Octet::new(a[2] as u8);
    if a[0] == 4 {
        let src = s.slice().to_vec();
        vh::fused_addassign_mul_scalar(d.slice(), &src, &c);
    } else {
        vh::kernels::fma_with(isa_name(a[0]), d.slice(), s.slice(), &c);
    }
    let out = d.slice().iter().map(|&x| x as u64).collect();
    finish(out, &[&d, &s])
}

/// [isa, align, c, len, nwords, words..., dest(len)]
pub fn k_fmabin(a: &[u64]) -> Vec<u64> {
    let len = a[3] as usize;
    let nw = a[4] as usize;
    let words: Vec<u64> = a[5..5 + nw].to_vec();
    let mut d = Guarded::new(&b(&a[5 + nw..5 + nw + len]), a[1] as usize);
    let bits = vh::BinaryOctetVec::new(words, len);
    let c = Octet::new(a[2] as u8);
    if a[0] == 4 {
        vh::fused_addassign_mul_scalar_binary(d.slice(), &bits, &c);
    } else {
        vh::kernels::fma_binary_with(isa_name(a[0]), d.slice(), &bits, &c);
    }
    let out = d.slice().iter().map(|&x| x as u64).collect();
    finish(out, &[&d])
}

/// [len, nwords, words...] -> to_octet_vec
pub fn k_unpack(a: &[u64]) -> Vec<u64> {
    let bits = vh::BinaryOctetVec::new(a[2..2 + a[1] as usize].to_vec(), a[0] as usize);
    vh::kernels::to_octet_vec(&bits).iter().map(|&x| x as u64).collect()
}

// ---------------------------------------------------------------------------------------------
// Guard-page variants (C12 validation): every operand lives in its own mapping, flush against an
// inaccessible page either at its end (place = 0: overruns fault) or at its start (place = 1:
// underruns fault).  An access outside the operand kills the process with SIGSEGV; the driver
// detects the crash and bisects to the case.  Stray accesses that rewrite identical bytes are
// invisible to canaries but not to this.
unsafe extern "C" {
    fn mmap(addr: *mut u8, len: usize, prot: i32, flags: i32, fd: i32, off: i64) -> *mut u8;
    fn mprotect(addr: *mut u8, len: usize, prot: i32) -> i32;
    fn munmap(addr: *mut u8, len: usize) -> i32;
}
const PAGE: usize = 4096;

struct Paged {
    base: *mut u8,
    total: usize,
    start: usize,
    len: usize,
}

impl Paged {
    fn new(data: &[u8], place: u64) -> Paged {
        let body = data.len().div_ceil(PAGE).max(1) * PAGE;
        let total = body + 2 * PAGE;
        unsafe {
            let base = mmap(std::ptr::null_mut(), total, 3, 0x22, -1, 0);
            assert!(!base.is_null() && base as isize != -1, "mmap failed");
            assert_eq!(mprotect(base, PAGE, 0), 0);
            assert_eq!(mprotect(base.add(PAGE + body), PAGE, 0), 0);
            let start = if place == 0 { PAGE + body - data.len() } else { PAGE };
            std::ptr::copy_nonoverlapping(data.as_ptr(), base.add(start), data.len());
            Paged { base, total, start, len: data.len() }
        }
    }
    fn slice(&mut self) -> &mut [u8] {
        unsafe { std::slice::from_raw_parts_mut(self.base.add(self.start), self.len) }
    }
}

impl Drop for Paged {
    fn drop(&mut self) {
        unsafe {
            munmap(self.base, self.total);
        }
    }
}

/// a packed bit vector whose 64-bit words live in a guarded mapping (flush against the inaccessible page at
/// the end or at the start); never dropped through the allocator
struct PagedBits {
    _map: Paged,
    bits: std::mem::ManuallyDrop<vh::BinaryOctetVec>,
}

impl PagedBits {
    fn new(words: &[u64], len: usize, place: u64) -> PagedBits {
        let raw: Vec<u8> = words.iter().flat_map(|w| w.to_ne_bytes()).collect();
        let mut map = Paged::new(&raw, place);
        let ptr = map.slice().as_mut_ptr() as *mut u64;
        assert_eq!(ptr as usize % 8, 0);
        // the Vec is never grown, shrunk or freed: ManuallyDrop keeps the allocator away from the mapping
        let v = unsafe { Vec::from_raw_parts(ptr, words.len(), words.len()) };
        PagedBits { _map: map, bits: std::mem::ManuallyDrop::new(vh::BinaryOctetVec::new(v, len)) }
    }
}

/// [op, isa, place, c, len, (nwords, words...) if op = 3, dest(len), src(len) if op in {0, 2}]
/// op 0 add, 1 mul, 2 fma, 3 fma_binary; output: dest after.
/// Mismatched operand lengths through the public dispatchers (each must refuse or stay inside both operands):
/// [4|5, 4, place, c, dlen, slen, dest(dlen), src(slen)] (4 add_assign, 5 fused_addassign_mul_scalar),
/// [6, 4, place, c, dlen, blen, nwords, words..., dest(dlen)] (fused_addassign_mul_scalar_binary)
pub fn kg(a: &[u64]) -> Vec<u64> {
    let (op, isa, place, c, len) = (a[0], a[1], a[2], a[3], a[4] as usize);
    let sc = Octet::new(c as u8);
    if op == 4 || op == 5 {
        let slen = a[5] as usize;
        let mut d = Paged::new(&b(&a[6..6 + len]), place);
        let mut s = Paged::new(&b(&a[6 + len..6 + len + slen]), place);
        if op == 4 {
            vh::add_assign(d.slice(), s.slice());
        } else {
            vh::fused_addassign_mul_scalar(d.slice(), s.slice(), &sc);
        }
        return d.slice().iter().map(|&x| x as u64).collect();
    }
    if op == 6 {
        let blen = a[5] as usize;
        let nw = a[6] as usize;
        let mut d = Paged::new(&b(&a[7 + nw..7 + nw + len]), place);
        let pb = PagedBits::new(&a[7..7 + nw], blen, place);
        vh::fused_addassign_mul_scalar_binary(d.slice(), &pb.bits, &sc);
        return d.slice().iter().map(|&x| x as u64).collect();
    }
    let mut rest = &a[5..];
    let words: Vec<u64> = if op == 3 {
        let nw = rest[0] as usize;
        let w = rest[1..1 + nw].to_vec();
        rest = &rest[1 + nw..];
        w
    } else {
        vec![]
    };
    let mut d = Paged::new(&b(&rest[..len]), place);
    match op {
        0 | 2 => {
            let mut s = Paged::new(&b(&rest[len..2 * len]), place);
            if op == 0 {
                if isa == 4 {
                    vh::add_assign(d.slice(), s.slice());
                } else {
                    vh::kernels::add_assign_with(isa_name(isa), d.slice(), s.slice());
                }
            } else if isa == 4 {
                vh::fused_addassign_mul_scalar(d.slice(), s.slice(), &sc);
            } else {
                vh::kernels::fma_with(isa_name(isa), d.slice(), s.slice(), &sc);
            }
        }
        1 => {
            if isa == 4 {
                vh::mulassign_scalar(d.slice(), &sc);
            } else {
                vh::kernels::mulassign_scalar_with(isa_name(isa), d.slice(), &sc);
            }
        }
        _ => {
            let pb = PagedBits::new(&words, len, place);
            if isa == 4 {
                vh::fused_addassign_mul_scalar_binary(d.slice(), &pb.bits, &sc);
            } else {
                vh::kernels::fma_binary_with(isa_name(isa), d.slice(), &pb.bits, &sc);
            }
        }
    }
    d.slice().iter().map(|&x| x as u64).collect()
}
