//! Direct runs of every private byte kernel (C11) with canary bytes around the buffers (C12 validation).
use raptorq::Octet;
use raptorq::verif_hooks as vh;

const GUARD: usize = 64;
const CANARY: u8 = 0xA5;

/// a buffer whose payload starts at an address congruent to `align` modulo 64, with guard zones
struct Guarded {
    raw: Vec<u8>,
    off: usize,
    len: usize,
}

impl Guarded {
    fn new(data: &[u8], align: usize) -> Guarded {
        let mut raw = vec![CANARY; data.len() + 2 * GUARD + 64];
        let base = raw.as_ptr() as usize;
        let mut off = GUARD;
        while (base + off) % 64 != align % 64 {
            off += 1;
        }
        raw[off..off + data.len()].copy_from_slice(data);
        Guarded { raw, off, len: data.len() }
    }
    fn slice(&mut self) -> &mut [u8] {
        &mut self.raw[self.off..self.off + self.len]
    }
    fn intact(&self) -> bool {
        self.raw[..self.off].iter().all(|&b| b == CANARY) && self.raw[self.off + self.len..].iter().all(|&b| b == CANARY)
    }
}

fn isa_name(i: u64) -> &'static str {
    match i {
        0 => "avx512",
        1 => "avx2",
        2 => "ssse3",
        _ => "fallback",
    }
}

fn finish(mut out: Vec<u64>, bufs: &[&Guarded]) -> Vec<u64> {
    out.push(u64::from(bufs.iter().all(|g| g.intact())));
    out
}

fn b(a: &[u64]) -> Vec<u8> {
    a.iter().map(|&x| x as u8).collect()
}

/// [isa, align, len, dest(len), src(len)]
pub fn k_add(a: &[u64]) -> Vec<u64> {
    let len = a[2] as usize;
    let mut d = Guarded::new(&b(&a[3..3 + len]), a[1] as usize);
    let mut s = Guarded::new(&b(&a[3 + len..]), (a[1] as usize + 17) % 64);
    let src = s.slice().to_vec();
    if a[0] == 4 {
        vh::add_assign(d.slice(), &src);
    } else {
        vh::kernels::add_assign_with(isa_name(a[0]), d.slice(), s.slice());
    }
    let out = d.slice().iter().map(|&x| x as u64).collect();
    finish(out, &[&d, &s])
}

/// [isa, align, c, len, dest(len)]
pub fn k_mul(a: &[u64]) -> Vec<u64> {
    let len = a[3] as usize;
    let mut d = Guarded::new(&b(&a[4..4 + len]), a[1] as usize);
    let c = Octet::new(a[2] as u8);
    if a[0] == 4 {
        vh::mulassign_scalar(d.slice(), &c);
    } else {
        vh::kernels::mulassign_scalar_with(isa_name(a[0]), d.slice(), &c);
    }
    let out = d.slice().iter().map(|&x| x as u64).collect();
    finish(out, &[&d])
}

/// [isa, align, c, len, dest(len), src(len)]
pub fn k_fma(a: &[u64]) -> Vec<u64> {
    let len = a[3] as usize;
    let mut d = Guarded::new(&b(&a[4..4 + len]), a[1] as usize);
    let mut s = Guarded::new(&b(&a[4 + len..]), (a[1] as usize + 33) % 64);
    let c = Octet::new(a[2] as u8);
    if a[0] == 4 {
        let src = s.slice().to_vec();
        vh::fused_addassign_mul_scalar(d.slice(), &src, &c);
    } else {
        vh::kernels::fma_with(isa_name(a[0]), d.slice(), s.slice(), &c);
    }
    let out = d.slice().iter().map(|&x| x as u64).collect();
    finish(out, &[&d, &s])
}

/// [isa, align, c, len, nwords, words..., dest(len)]
pub fn k_fmabin(a: &[u64]) -> Vec<u64> {
    let len = a[3] as usize;
    let nw = a[4] as usize;
    let words: Vec<u64> = a[5..5 + nw].to_vec();
    let mut d = Guarded::new(&b(&a[5 + nw..5 + nw + len]), a[1] as usize);
    let bits = vh::BinaryOctetVec::new(words, len);
    let c = Octet::new(a[2] as u8);
    if a[0] == 4 {
        vh::fused_addassign_mul_scalar_binary(d.slice(), &bits, &c);
    } else {
        vh::kernels::fma_binary_with(isa_name(a[0]), d.slice(), &bits, &c);
    }
    let out = d.slice().iter().map(|&x| x as u64).collect();
    finish(out, &[&d])
}

/// [len, nwords, words...] -> to_octet_vec
pub fn k_unpack(a: &[u64]) -> Vec<u64> {
    let bits = vh::BinaryOctetVec::new(a[2..2 + a[1] as usize].to_vec(), a[0] as usize);
    vh::kernels::to_octet_vec(&bits).iter().map(|&x| x as u64).collect()
}
