//! rqh: runs the real raptorq code on case files for the correspondence check.
//! Usage: rqh <casefile> <outfile>
//! Each case line: `<fn> <arg>...` (decimal integers).  Each result line: `1 <values...>` for a
//! normal return, `0 <class>` for a panic (class is informational, never compared).
use std::fmt::Write as _;
use std::io::{BufRead, BufReader, BufWriter, Write};
use std::panic::{AssertUnwindSafe, catch_unwind};

mod bitmat;
mod cache;
mod codec;
mod groups;
mod kern;

fn classify(msg: &str) -> &'static str {
    if msg.contains("overflow") {
        "overflow"
    } else if msg.contains("unreachable") {
        "unreachable"
    } else if msg.contains("not implemented") || msg.contains("unimplemented") {
        "unimplemented"
    } else if msg.contains("index out of bounds") || msg.contains("out of range") || msg.contains("range end") || msg.contains("range start") {
        "index"
    } else if msg.contains("unwrap") {
        "unwrap"
    } else if msg.contains("divide by zero") || msg.contains("remainder with a divisor of zero") {
        "divzero"
    } else if msg.contains("assertion") {
        "assert"
    } else {
        "other"
    }
}

fn main() {
    let args: Vec<String> = std::env::args().collect();
    if args.len() != 3 {
        eprintln!("usage: rqh <casefile> <outfile>");
        std::process::exit(2);
    }
    if std::env::var("RQH_VERBOSE").is_ok() {
        std::panic::set_hook(Box::new(|info| eprintln!("panic: {}", info)));
    } else {
        std::panic::set_hook(Box::new(|_| {}));
    }
    let input = BufReader::new(std::fs::File::open(&args[1]).expect("open casefile"));
    let mut out = BufWriter::new(std::fs::File::create(&args[2]).expect("create outfile"));
    for line in input.lines() {
        let line = line.unwrap();
        let line = line.trim();
        if line.is_empty() || line.starts_with('#') {
            continue;
        }
        let mut it = line.split_whitespace();
        let name = it.next().unwrap().to_string();
        let nums: Vec<u64> = it.map(|t| t.parse::<u64>().expect("numeric arg")).collect();
        let r = catch_unwind(AssertUnwindSafe(|| groups::run(&name, &nums)));
        let mut s = String::new();
        match r {
            Ok(vals) => {
                s.push('1');
                for v in vals {
                    write!(s, " {}", v).unwrap();
                }
            }
            Err(e) => {
                let msg = if let Some(m) = e.downcast_ref::<String>() {
                    m.clone()
                } else if let Some(m) = e.downcast_ref::<&str>() {
                    m.to_string()
                } else {
                    String::new()
                };
                write!(s, "0 {}", classify(&msg)).unwrap();
            }
        }
        writeln!(out, "{}", s).unwrap();
    }
    out.flush().unwrap();
}
