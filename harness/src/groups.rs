use raptorq::Octet;
use raptorq::verif_hooks as vh;

pub fn run(name: &str, a: &[u64]) -> Vec<u64> {
    match name {
        // ---- C10: octet arithmetic through the real operator impls
        "oct_add" => {
            let x = Octet::new(a[0] as u8) + Octet::new(a[1] as u8);
            let y = &Octet::new(a[0] as u8) + &Octet::new(a[1] as u8);
            let mut z = Octet::new(a[0] as u8);
            z += Octet::new(a[1] as u8);
            let mut w = Octet::new(a[0] as u8);
            w += &Octet::new(a[1] as u8);
            let s = Octet::new(a[0] as u8) - Octet::new(a[1] as u8);
            assert!(x == y && y == z && z == w && w == s, "operator variants disagree");
            vec![x.byte() as u64]
        }
        "oct_mul" => {
            let x = Octet::new(a[0] as u8) * Octet::new(a[1] as u8);
            let y = &Octet::new(a[0] as u8) * &Octet::new(a[1] as u8);
            assert!(x == y, "operator variants disagree");
            vec![x.byte() as u64]
        }
        "oct_div" => {
            let y = &Octet::new(a[0] as u8) / &Octet::new(a[1] as u8);
            let x = Octet::new(a[0] as u8) / Octet::new(a[1] as u8);
            assert!(x == y, "operator variants disagree");
            vec![x.byte() as u64]
        }
        "oct_fma" => {
            let mut acc = Octet::new(a[0] as u8);
            acc.fma(&Octet::new(a[1] as u8), &Octet::new(a[2] as u8));
            vec![acc.byte() as u64]
        }
        "oct_alpha" => vec![Octet::alpha(a[0] as usize).byte() as u64],
        "oct_tbl_mul" => vec![vh::OCTET_MUL[a[0] as usize][a[1] as usize] as u64],
        "oct_tbl_low" => vec![vh::OCTET_MUL_LOW_BITS[a[0] as usize][a[1] as usize] as u64],
        "oct_tbl_hi" => vec![vh::OCTET_MUL_HI_BITS[a[0] as usize][a[1] as usize] as u64],
        _ => panic!("unknown case function {}", name),
    }
}
