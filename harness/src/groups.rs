use raptorq::Octet;
use raptorq::verif_hooks as vh;

pub fn run(name: &str, a: &[u64]) -> Vec<u64> {
    match name {
        // ---- C10: octet arithmetic through the real operator impls
        "oct_add" => {
            let x = Octet::new(a[0] as u8) + Octet::new(a[1] as u8);
            let y = &Octet::new(a[0] as u8) + &Octet::new(a[1] as u8);
            let mut z = Octet::new(a[0] as u8);
            z += Octet::new(a[1] as u8);
            let mut w = Octet::new(a[0] as u8);
            w += &Octet::new(a[1] as u8);
            let s = Octet::new(a[0] as u8) - Octet::new(a[1] as u8);
            assert!(x == y && y == z && z == w && w == s, "operator variants disagree");
            vec![x.byte() as u64]
        }
        "oct_mul" => {
            let x = Octet::new(a[0] as u8) * Octet::new(a[1] as u8);
            let y = &Octet::new(a[0] as u8) * &Octet::new(a[1] as u8);
            assert!(x == y, "operator variants disagree");
            vec![x.byte() as u64]
        }
        "oct_div" => {
            let y = &Octet::new(a[0] as u8) / &Octet::new(a[1] as u8);
            let x = Octet::new(a[0] as u8) / Octet::new(a[1] as u8);
            assert!(x == y, "operator variants disagree");
            vec![x.byte() as u64]
        }
        "oct_fma" => {
            let mut acc = Octet::new(a[0] as u8);
            acc.fma(&Octet::new(a[1] as u8), &Octet::new(a[2] as u8));
            vec![acc.byte() as u64]
        }
        "oct_alpha" => vec![Octet::alpha(a[0] as usize).byte() as u64],
        "oct_tbl_mul" => vec![vh::OCTET_MUL[a[0] as usize][a[1] as usize] as u64],
        "oct_tbl_low" => vec![vh::OCTET_MUL_LOW_BITS[a[0] as usize][a[1] as usize] as u64],
        "oct_tbl_hi" => vec![vh::OCTET_MUL_HI_BITS[a[0] as usize][a[1] as usize] as u64],
        // ---- C19 / C13: OTI constructor and wire formats
        "oti_new" => {
            let o = raptorq::ObjectTransmissionInformation::new(a[0], a[1] as u16, a[2] as u8, a[3] as u16, a[4] as u8);
            vec![o.transfer_length(), o.symbol_size() as u64, o.source_blocks() as u64, o.sub_blocks() as u64, o.symbol_alignment() as u64]
        }
        // ---- C14: parameter derivation
        "gen_params" => {
            let o = vh::generate_encoding_parameters(a[0], a[1] as u16, a[2]);
            vec![o.transfer_length(), o.symbol_size() as u64, o.source_blocks() as u64, o.sub_blocks() as u64, o.symbol_alignment() as u64]
        }
        "with_defaults" => {
            let o = raptorq::ObjectTransmissionInformation::with_defaults(a[0], a[1] as u16);
            vec![o.transfer_length(), o.symbol_size() as u64, o.source_blocks() as u64, o.sub_blocks() as u64, o.symbol_alignment() as u64]
        }
        // ---- C15: systematic constants, rand, deg, tuple, enc_indices
        "sys_kprime" => vec![vh::extended_source_block_symbols(a[0] as u32) as u64],
        "sys_j" => vec![vh::systematic_index(a[0] as u32) as u64],
        "sys_h" => vec![vh::num_hdpc_symbols(a[0] as u32) as u64],
        "sys_s" => vec![vh::num_ldpc_symbols(a[0] as u32) as u64],
        "sys_w" => vec![vh::num_lt_symbols(a[0] as u32) as u64],
        "sys_l" => vec![vh::num_intermediate_symbols(a[0] as u32) as u64],
        "sys_p" => vec![vh::num_pi_symbols(a[0] as u32) as u64],
        "sys_p1" => vec![vh::calculate_p1(a[0] as u32) as u64],
        "rand" => vec![vh::rand(a[0] as u32, a[1] as u32, a[2] as u32) as u64],
        "deg" => vec![vh::deg(a[0] as u32, a[1] as u32) as u64],
        "tuple" => {
            // X W J P1
            let t = vh::intermediate_tuple(a[0] as u32, a[1] as u32, a[2] as u32, a[3] as u32);
            vec![t.0 as u64, t.1 as u64, t.2 as u64, t.3 as u64, t.4 as u64, t.5 as u64]
        }
        "enc_indices" => {
            // d a b d1 a1 b1 W P P1
            let mut out = vec![];
            vh::enc_indices(
                (a[0] as u32, a[1] as u32, a[2] as u32, a[3] as u32, a[4] as u32, a[5] as u32),
                a[6] as u32, a[7] as u32, a[8] as u32, |j| out.push(j as u64));
            out
        }
        // ---- C13: wire formats
        "pid_new" => {
            let p = raptorq::PayloadId::new(a[0] as u8, a[1] as u32);
            vec![p.source_block_number() as u64, p.encoding_symbol_id() as u64]
        }
        "pid_ser" => {
            let p = raptorq::PayloadId::new(a[0] as u8, a[1] as u32);
            p.serialize().iter().map(|&b| b as u64).collect()
        }
        "pid_deser" => {
            let b = [a[0] as u8, a[1] as u8, a[2] as u8, a[3] as u8];
            let p = raptorq::PayloadId::deserialize(&b);
            let mut out = vec![p.source_block_number() as u64, p.encoding_symbol_id() as u64];
            out.extend(p.serialize().iter().map(|&b| b as u64));
            out
        }
        "pkt_ser" => {
            let p = raptorq::EncodingPacket::new(
                raptorq::PayloadId::new(a[0] as u8, a[1] as u32),
                a[2..].iter().map(|&b| b as u8).collect(),
            );
            p.serialize().iter().map(|&b| b as u64).collect()
        }
        "pkt_deser" => {
            let bytes: Vec<u8> = a.iter().map(|&b| b as u8).collect();
            let p = raptorq::EncodingPacket::deserialize(&bytes);
            let mut out = vec![
                p.payload_id().source_block_number() as u64,
                p.payload_id().encoding_symbol_id() as u64,
            ];
            out.extend(p.data().iter().map(|&b| b as u64));
            out
        }
        "oti_ser" => {
            let o = raptorq::ObjectTransmissionInformation::new(a[0], a[1] as u16, a[2] as u8, a[3] as u16, a[4] as u8);
            o.serialize().iter().map(|&b| b as u64).collect()
        }
        "oti_deser" => {
            let mut b = [0u8; 12];
            for i in 0..12 {
                b[i] = a[i] as u8;
            }
            let o = raptorq::ObjectTransmissionInformation::deserialize(&b);
            let mut out = vec![o.transfer_length(), o.symbol_size() as u64, o.source_blocks() as u64, o.sub_blocks() as u64, o.symbol_alignment() as u64];
            out.extend(o.serialize().iter().map(|&b| b as u64));
            out
        }
        // ---- C17: plan cache under a controlled schedule
        "cache_trace" => crate::cache::trace(a),
        "cache_trace_after_refusal" => crate::cache::trace_after_refusal(a),
        // ---- end-to-end codec cases
        "enc_packets" => crate::codec::enc_packets(a),
        "enc_packets_per_block" => crate::codec::enc_packets_per_block(a),
        "layout_packets" => {
            let mut b = a[..5].to_vec();
            b.push(0);
            b.extend_from_slice(&a[5..]);
            crate::codec::enc_packets(&b)
        }
        "layout_roundtrip_api" => crate::codec::layout_roundtrip_api(a),
        "dec_feed" => crate::codec::dec_feed(a),
        "layout_roundtrip" => crate::codec::layout_roundtrip(a),
        "repair_window" => crate::codec::repair_window(a),
        "codec_hist" => crate::codec::codec_hist(a),
        "sbd_hist" => crate::codec::sbd_hist(a),
        "intermediate" => crate::codec::intermediate(a),
        "plan_ops" => crate::codec::plan_ops(a),
        "builder_roundtrip" => crate::codec::builder_roundtrip(a),
        "cm_rows" => crate::codec::cm_rows(a),
        "dec_ops" => crate::codec::dec_ops(a),
        "dense_solve_ops" => std::iter::once(1u64).chain(crate::codec::solve_ops(&[a[0], 1 << 31])).collect(),
        "variant_packets" => crate::codec::variant_packets(a),
        "col_indep" => crate::codec::col_indep(a),
        "solve_ops" => crate::codec::solve_ops(a),
        "bm_dense" => crate::bitmat::dense(a),
        "bm_sparse" => crate::bitmat::sparse(a),
        "plan_variants" => crate::codec::plan_variants(a),
        "k_add" => crate::kern::k_add(a),
        "k_mul" => crate::kern::k_mul(a),
        "k_fma" => crate::kern::k_fma(a),
        "k_fmabin" => crate::kern::k_fmabin(a),
        "k_unpack" => crate::kern::k_unpack(a),
        "kg" => crate::kern::kg(a),
        "slab_replay" => crate::codec::slab_replay(a),
        _ => panic!("unknown case function {}", name),
    }
}
