//! Operation sequences on the real DenseBinaryMatrix / SparseBinaryMatrix (C16).
//! Case: [h, w, hint, nops, (len, opcode, args...)*]; output: per op `len row...` where row is
//! `1 answer...` or `0` (panic: the run stops there).  Row / column query answers are sorted (sets).
use raptorq::verif_hooks as vh;
use raptorq::{BinaryMatrix, DenseBinaryMatrix, Octet, SparseBinaryMatrix};
use std::panic::{AssertUnwindSafe, catch_unwind};

fn step<M: BinaryMatrix>(m: &mut M, op: &[u64]) -> Vec<u64> {
    let a = |i: usize| op[i] as usize;
    match op[0] {
        1 => {
            m.set(a(1), a(2), Octet::new(if op[3] != 0 { 1 } else { 0 }));
            vec![]
        }
        2 => vec![m.get(a(1), a(2)).byte() as u64],
        3 => {
            m.swap_rows(a(1), a(2));
            vec![]
        }
        4 => {
            m.swap_columns(a(1), a(2), a(3));
            vec![]
        }
        5 => {
            m.add_assign_rows(a(1), a(2), a(3));
            vec![]
        }
        6 => {
            m.resize(a(1), a(2));
            vec![]
        }
        7 => vec![m.count_ones(a(1), a(2), a(3)) as u64],
        8 => {
            let mut v: Vec<u64> = m
                .get_row_iter(a(1), a(2), a(3))
                .filter(|(_, x)| *x != Octet::zero())
                .map(|(c, _)| c as u64)
                .collect();
            v.sort_unstable();
            v
        }
        9 => {
            let mut v: Vec<u64> = m.get_ones_in_column(a(1), a(2), a(3)).iter().map(|&r| r as u64).collect();
            // the buffer-reusing variant must give the same answer whatever the buffer held before
            let mut buf: Vec<u32> = vec![7, 7, 7];
            m.get_ones_in_column_into(a(1), a(2), a(3), &mut buf);
            let mut w: Vec<u64> = buf.iter().map(|&r| r as u64).collect();
            v.sort_unstable();
            w.sort_unstable();
            assert!(v == w, "get_ones_in_column_into differs from get_ones_in_column");
            v
        }
        10 => vh::kernels::to_octet_vec(&m.get_sub_row_as_octets(a(1), a(2))).iter().map(|&b| b as u64).collect(),
        11 => {
            let mut v: Vec<u64> = m.query_non_zero_columns(a(1), a(2)).iter().map(|&c| c as u64).collect();
            let mut buf: Vec<usize> = vec![9, 9];
            m.query_non_zero_columns_into(a(1), a(2), &mut buf);
            let mut w: Vec<u64> = buf.iter().map(|&c| c as u64).collect();
            v.sort_unstable();
            w.sort_unstable();
            assert!(v == w, "query_non_zero_columns_into differs from query_non_zero_columns");
            v
        }
        12 => {
            m.hint_column_dense_and_frozen(a(1));
            vec![]
        }
        13 => {
            m.enable_column_access_acceleration();
            vec![]
        }
        14 => {
            m.disable_column_access_acceleration();
            vec![]
        }
        _ => panic!("unknown opcode"),
    }
}

fn run<M: BinaryMatrix>(mut m: M, ops: &[u64], nops: usize) -> Vec<u64> {
    let mut out = vec![];
    let mut i = 0;
    for _ in 0..nops {
        let len = ops[i] as usize;
        let op = &ops[i + 1..i + 1 + len];
        i += 1 + len;
        match catch_unwind(AssertUnwindSafe(|| step(&mut m, op))) {
            Ok(ans) => {
                out.push(1 + ans.len() as u64);
                out.push(1);
                out.extend(ans);
            }
            Err(_) => {
                out.push(1);
                out.push(0);
                break;
            }
        }
    }
    out
}

pub fn dense(a: &[u64]) -> Vec<u64> {
    run(DenseBinaryMatrix::new(a[0] as usize, a[1] as usize, a[2] as usize), &a[4..], a[3] as usize)
}

pub fn sparse(a: &[u64]) -> Vec<u64> {
    run(SparseBinaryMatrix::new(a[0] as usize, a[1] as usize, a[2] as usize), &a[4..], a[3] as usize)
}
